#!/usr/bin/env python3
"""vp_check.py - driver for solver-based checking of /repo (bee2).

usage:
  vp_check.py <PROPERTY-ID> [--tier quick|thorough] [--only SUBSTR] [--jobs N] [--list]
  vp_check.py --replay <path>

For every obligation of the property (props/<ID>.py):
  1. the harness, the *real* /repo translation units it names and the stubs are
     compiled with goto-cc from /repo's current working tree (include paths and
     macros of the CMake build + the profile of the obligation);
  2. cbmc decides all assertions within the stated unwinding bounds
     (--unwinding-assertions), the reachability witness VP_WITNESS must FAIL;
  3. a failed property is re-run with --trace, the solver's input assignment is
     written to replay/<ob>.json and replayed on a natively compiled build of the
     same harness against the real sources; only a reproduced counterexample is
     printed as VIOLATION.
Evidence goes to evidence/<ID>.json.
exit 0: held on everything explored (known findings printed as KNOWN-FINDING)
exit 1: VIOLATION line(s) printed
exit 2: machinery broken (witness did not fire / tool error)
"""
import sys, os, json, re, time, subprocess, hashlib, shutil, importlib, argparse, resource, random
from concurrent.futures import ThreadPoolExecutor, as_completed

VERIF = os.path.dirname(os.path.abspath(__file__))
REPO = os.environ.get('VP_REPO', '/repo')
BUILD = os.environ.get('VP_BUILD', os.path.join(VERIF, 'build'))
sys.path.insert(0, VERIF)

# --pointer-overflow-check is NOT in the default set: CBMC 6 turns a failed check into an assumption,
# so a (non-reproducible, C-level-UB-only) "pointer outside object bounds" on an intermediate
# pointer such as `buf + 16 - filled` in beltMACStepA makes every later property UNKNOWN.
# Obligations that want it pass checks=DEFAULT_CHECKS + ['--pointer-overflow-check'];
# its failures are then recorded as ub_notes, never as VIOLATION.
DEFAULT_CHECKS = ['--bounds-check', '--pointer-check',
                  '--undefined-shift-check', '--signed-overflow-check', '--div-by-zero-check']

# ---------------------------------------------------------------- obligations

class Ob(dict):
    """One proof obligation. Keys (defaults in DEFAULTS):
    name, harness, entry, defs, word, ndebug, safe_fast, blob_exact, cfgdefs,
    srcs [(path | (path, {'remove':[...], 'defs':[...]}))], extra, native_extra,
    native_srcs, unwind, unwindset, no_uwa, checks, backend, timeout, mem_gb, tiers,
    bound (text), funcs (list), stubs (list of text), shape (list of field names),
    replay ('native'|'asan'|'stub'), kind ('cbmc'|'custom'), run (callable for custom)"""
    DEFAULTS = dict(entry='harness', defs=[], word=64, ndebug=True, safe_fast=False,
                    blob_exact=False, cfgdefs=[], srcs=[], extra=[], stub_files=[],
                    unwind=None, unwindset={}, no_uwa=False,
                    checks=None, backend='cadical', timeout=300, mem_gb=12,
                    tiers=('quick', 'thorough'), bound='', funcs=[], stubs=[], shape=[],
                    replay='native', kind='cbmc', run=None, cbmc_extra=[], object_bits=11, unwind_rules=[],
                    malloc_may_fail=False, nowitness=False, instances=[], branch_trace=False)
    def __init__(self, **kw):
        d = dict(Ob.DEFAULTS); d.update(kw)
        super().__init__(d)
    def __getattr__(self, k):
        try: return self[k]
        except KeyError: raise AttributeError(k)

# ---------------------------------------------------------------- helpers

def sh(cmd, timeout=None, cwd=None, mem_gb=None, env=None):
    def lim():
        os.setsid()
        if mem_gb:
            b = int(mem_gb * (1 << 30))
            resource.setrlimit(resource.RLIMIT_AS, (b, b))
    t0 = time.time()
    p = subprocess.Popen(cmd, stdout=subprocess.PIPE, stderr=subprocess.PIPE, cwd=cwd,
                         preexec_fn=lim, env=env)
    try:
        out, err = p.communicate(timeout=timeout)
        to = False
    except subprocess.TimeoutExpired:
        try: os.killpg(p.pid, 9)
        except Exception: pass
        out, err = p.communicate()
        to = True
    ru = resource.getrusage(resource.RUSAGE_CHILDREN)
    return dict(rc=p.returncode, out=out.decode('utf-8', 'replace'),
                err=err.decode('utf-8', 'replace'), timeout=to, wall=time.time() - t0)

def race(cmds_envs, timeout, mem_gb):
    """run several solver back ends on the same query concurrently; the first one that
    terminates by itself wins, the others are killed. -> (index, result-dict)"""
    import tempfile
    def lim():
        os.setsid()
        if mem_gb:
            b = int(mem_gb * (1 << 30)); resource.setrlimit(resource.RLIMIT_AS, (b, b))
    t0 = time.time(); procs = []
    for cmd, env in cmds_envs:
        fo = tempfile.TemporaryFile(); fe = tempfile.TemporaryFile()
        procs.append((subprocess.Popen(cmd, stdout=fo, stderr=fe, preexec_fn=lim, env=env), fo, fe))
    win = None
    done = set()
    while time.time() - t0 < timeout and win is None and len(done) < len(procs):
        for i, (p, fo, fe) in enumerate(procs):
            if i in done: continue
            if p.poll() is not None:
                fo.seek(0); out = fo.read().decode('utf-8', 'replace')
                done.add(i)
                if 'VERIFICATION SUCCESSFUL' in out or 'VERIFICATION FAILED' in out:
                    if '(error' not in out:
                        win = i; break
        time.sleep(0.05)
    for i, (p, fo, fe) in enumerate(procs):
        if p.poll() is None:
            try: os.killpg(p.pid, 9)
            except Exception: pass
            p.wait()
    idx = win if win is not None else (sorted(done)[0] if done else 0)
    p, fo, fe = procs[idx]
    fo.seek(0); fe.seek(0)
    r = dict(rc=p.returncode, out=fo.read().decode('utf-8', 'replace'), err=fe.read().decode('utf-8', 'replace'),
             timeout=(win is None and len(done) < len(procs)), wall=time.time() - t0)
    for p, fo, fe in procs: fo.close(); fe.close()
    return idx, r

_tree_hash = None
def tree_hash():
    """hash of every file under /repo/include and /repo/src (content) + /verif sources"""
    global _tree_hash
    if _tree_hash: return _tree_hash
    h = hashlib.sha256()
    for top in (os.path.join(REPO, 'include'), os.path.join(REPO, 'src')):
        for dp, dn, fn in sorted(os.walk(top)):
            dn.sort()
            for f in sorted(fn):
                p = os.path.join(dp, f)
                h.update(p.encode()); h.update(open(p, 'rb').read())
    _tree_hash = h.hexdigest()[:16]
    return _tree_hash

def cfg_flags(ob):
    fl = ['-I' + os.path.join(REPO, 'include'), '-I' + os.path.join(REPO, 'src'),
          '-I' + os.path.join(VERIF, 'include'), '-I' + VERIF, '-DBEE2_VERIF']
    if ob.ndebug: fl.append('-DNDEBUG')
    if ob.word in (16, 32): fl.append('-DBEE2_VERIF_WORD=%d' % ob.word)
    if ob.safe_fast: fl.append('-DSAFE_FAST')
    if ob.blob_exact: fl.append('-DBEE2_VERIF_BLOB_EXACT')
    fl += ['-D' + d for d in ob.cfgdefs]
    return fl

def gb_compile(src_abs, flags, outdir, tag=''):
    """compile one TU with goto-cc, cached by (tree hash, flags, file)"""
    key = hashlib.sha256((src_abs + '\0' + '\0'.join(flags) + tag).encode()).hexdigest()[:20]
    out = os.path.join(outdir, key + '.gb')
    if os.path.exists(out): return out, None
    tmp = out + '.%d.tmp' % os.getpid() + str(random.random())
    r = sh(['goto-cc', '-c'] + flags + [src_abs, '-o', tmp], timeout=300)
    if r['rc'] != 0 or not os.path.exists(tmp):
        return None, 'goto-cc failed on %s: %s' % (src_abs, (r['err'] + r['out'])[-1500:])
    os.replace(tmp, out)
    return out, None

def src_hash(paths):
    h = hashlib.sha256()
    for p in paths:
        h.update(open(p, 'rb').read())
    return h.hexdigest()[:12]

def build_ob(ob, workdir):
    """-> (linked goto binary, error)"""
    cache = os.path.join(BUILD, 'cache-' + tree_hash())
    os.makedirs(cache, exist_ok=True)
    fl = cfg_flags(ob)
    parts = []
    for s in ob.srcs:
        opts = {}
        if isinstance(s, (tuple, list)): s, opts = s
        sa = os.path.join(REPO, s)
        f2 = fl + ['-D' + d for d in opts.get('defs', [])]
        gb, err = gb_compile(sa, f2, cache)
        if err: return None, err
        rem = opts.get('remove', [])
        if rem:
            key = hashlib.sha256((gb + ','.join(rem)).encode()).hexdigest()[:20]
            gb2 = os.path.join(cache, key + '.rm.gb')
            if not os.path.exists(gb2):
                cmd = ['goto-instrument']
                for f in rem: cmd += ['--remove-function-body', f]
                tmp = gb2 + '.%d.tmp' % os.getpid() + str(random.random())
                r = sh(cmd + [gb, tmp], timeout=300)
                if r['rc'] != 0: return None, 'goto-instrument failed: ' + r['err'][-800:] + r['out'][-800:]
                os.replace(tmp, gb2)
            gb = gb2
        parts.append(gb)
    hfl = fl + ['-DVP_CBMC'] + ['-D' + d for d in ob.defs]
    for e in [ob.harness] + list(ob.extra) + list(ob.stub_files):
        ea = os.path.join(VERIF, e)
        gb, err = gb_compile(ea, hfl, cache, tag=src_hash([ea, os.path.join(VERIF, 'include', 'vp.h')] + extra_deps(ea)))
        if err: return None, err
        parts.append(gb)
    out = os.path.join(workdir, 'linked.gb')
    r = sh(['goto-cc'] + parts + ['-o', out], timeout=300)
    if r['rc'] != 0: return None, 'link failed: ' + (r['err'] + r['out'])[-1500:]
    if ob.branch_trace:
        # branch-trace instrumentation (C14): vp_br("taken"/"not-taken") at both arms of every conditional goto
        out2 = os.path.join(workdir, 'linked.br.gb')
        r = sh(['goto-instrument', '--branch', 'vp_br', out, out2], timeout=300)
        if r['rc'] != 0 or not os.path.exists(out2): return None, 'goto-instrument --branch failed: ' + (r['err'] + r['out'])[-800:]
        out = out2
    return out, None

def extra_deps(path):
    """files #include'd with "..." from /verif (one level, enough for cache keys)"""
    deps = []
    try:
        for m in re.finditer(r'#\s*include\s+"([^"]+)"', open(path, encoding='utf-8', errors='replace').read()):
            for base in (os.path.dirname(path), VERIF, os.path.join(VERIF, 'include')):
                p = os.path.join(base, m.group(1))
                if os.path.exists(p): deps.append(p); break
    except Exception: pass
    return deps

BACKENDS = {
    'default': [],
    'minisat': [],
    'cadical': ['--sat-solver', 'cadical'],
    'kissat': ['--external-sat-solver', 'kissat'],
    'z3': ['--z3'],
    'cvc5': ['--cvc5'],
    'cvc5int': ['--cvc5', '--slice-formula'],
}

RES_RE = re.compile(r'^\[([^\]]+)\] (.*): (SUCCESS|FAILURE|UNKNOWN|ERROR)\s*$', re.M)

def cbmc_cmd(ob, gb, extra=(), backend=None):
    cmd = ['cbmc', gb, '--function', ob.entry, '--drop-unused-functions', '--verbosity', '6']
    cmd.append('--no-unwinding-assertions' if ob.no_uwa else '--unwinding-assertions')   # no_uwa: partial loops, stated in the bound
    chk = list(ob.checks if ob.checks is not None else DEFAULT_CHECKS)
    # CBMC 6 switches its standard checks on by default: what an obligation does not ask for is switched off
    for c in ('bounds-check', 'pointer-check', 'undefined-shift-check', 'signed-overflow-check', 'div-by-zero-check',
              'pointer-primitive-check'):
        if '--' + c not in chk: chk.append('--no-' + c)
    cmd += chk
    if ob.unwind is not None: cmd += ['--unwind', str(ob.unwind)]
    uws = dict(ob.unwindset)
    if ob.unwind_rules:
        # per-loop bounds by rule: loop ids come from `cbmc --show-loops` on the linked binary
        r = sh(['cbmc', gb, '--show-loops'], timeout=120)
        for lid in re.findall(r'^Loop ([^\s:]+):', r['out'], re.M):
            if lid in uws: continue
            for rx, k in ob.unwind_rules:
                if re.search(rx, lid):
                    uws[lid] = k; break
    if uws:
        cmd += ['--unwindset', ','.join('%s:%d' % kv for kv in sorted(uws.items()))]
    if not ob.malloc_may_fail: cmd += ['--no-malloc-may-fail']
    else: cmd += ['--malloc-may-fail', '--malloc-fail-null']
    if ob.object_bits: cmd += ['--object-bits', str(ob.object_bits)]
    cmd += BACKENDS[backend or (ob.backend if isinstance(ob.backend, str) else ob.backend[0])]
    # the trace run must not slice: a sliced formula may drop the declaration of the harness input
    cmd += [x for x in ob.cbmc_extra if not ('--trace' in extra and x == '--slice-formula')] + list(extra)
    return cmd

def shim_env(ob, backend=None):
    env = dict(os.environ)
    if (backend or ob.backend) == 'cvc5int':
        env['PATH'] = os.path.join(VERIF, 'tools', 'shim') + ':' + env['PATH']
    return env

# ---------------------------------------------------------------- trace -> C initialiser

def val_to_c(v):
    n = v.get('name')
    if n == 'struct':
        ms = [m for m in v['members'] if not m['name'].startswith('$pad')]
        return '{ ' + ', '.join('.%s = %s' % (m['name'], val_to_c(m['value'])) for m in ms) + ' }'
    if n == 'array':
        return '{ ' + ', '.join(val_to_c(e['value']) for e in v['elements']) + ' }'
    if n == 'integer' or 'binary' in v:
        b = v['binary']; w = len(b)
        x = int(b, 2)
        return '0x%xu' % x if w <= 32 else '0x%xull' % x
    if n == 'pointer':
        return '0'
    if n == 'union':
        raise ValueError('union in input')
    if n == 'unknown':
        return '0'
    raise ValueError('unhandled value ' + json.dumps(v)[:200])

def extract_input(trace, entry):
    best = None
    for st in trace:
        if st.get('stepType') == 'assignment' and st.get('lhs') == 'in' and \
           st.get('sourceLocation', {}).get('function') == entry and 'value' in st:
            if st['value'].get('name') == 'struct':
                best = st['value']
                break   # the declaration (nondet initial value)
    return best

# ---------------------------------------------------------------- native replay

_nlib_lock = __import__('threading').Lock()
def repo_src_list():
    txt = open(os.path.join(REPO, 'src', 'CMakeLists.txt'), encoding='utf-8').read()
    m = re.search(r'set\(src\s+(.*?)\)', txt, re.S)
    return [x for x in m.group(1).split() if x.endswith('.c')]

def native_lib(fl, asan):
    """the whole library, natively compiled from /repo's working tree with the profile's flags"""
    cache = os.path.join(BUILD, 'cache-' + tree_hash())
    key = hashlib.sha256(('\0'.join(fl) + str(asan)).encode()).hexdigest()[:16]
    d = os.path.join(cache, 'native-' + key)
    lib = os.path.join(d, 'libbee2.a')
    with _nlib_lock:
        if os.path.exists(lib): return lib, None
        os.makedirs(d, exist_ok=True)
        cc = ['gcc', '-O1', '-g', '-w', '-fno-strict-aliasing']
        if asan: cc += ['-fsanitize=address,undefined', '-fno-sanitize-recover=undefined', '-fno-omit-frame-pointer']
        srcs = repo_src_list()
        def one(s):
            o = os.path.join(d, s.replace('/', '_')[:-2] + '.o')
            r = sh(cc + fl + ['-c', os.path.join(REPO, 'src', s), '-o', o], timeout=600)
            return o, r
        objs = []
        skipped = []
        with ThreadPoolExecutor(max_workers=16) as ex:
            for o, r in ex.map(one, srcs):
                # units that do not exist in a profile (u64.c and its users at B_PER_W == 16) are left out;
                # a harness that needs one of them fails at link time
                if r['rc'] != 0: skipped.append(o); continue
                objs.append(o)
        if len(objs) < 20: return None, 'native compile failed for most units: ' + r['err'][-1000:]
        tmp = lib + '.tmp'
        r = sh(['ar', 'rcs', tmp] + objs)
        if r['rc'] != 0: return None, 'ar failed ' + r['err']
        os.replace(tmp, lib)
        for o in objs: os.unlink(o)
        return lib, None

def native_build(ob, init_c, workdir, asan=False):
    hdr = os.path.join(workdir, 'vp_in_init.h')
    with open(hdr, 'w') as f: f.write('#define VP_IN_INIT ' + init_c + '\n')
    fl = cfg_flags(ob)
    hfl = fl + ['-D' + d for d in ob.defs]
    cc = ['gcc', '-O1', '-g', '-w', '-fno-strict-aliasing']
    if asan: cc += ['-fsanitize=address,undefined', '-fno-sanitize-recover=undefined', '-fno-omit-frame-pointer']
    lib, err = native_lib(fl, asan)
    if err: return None, err
    ex = list(ob.extra)
    stub_objs = []
    if ob.replay == 'stub' and ob.stub_files:
        syms = set()
        # native_stub_files: the subset of stubs that also exists natively (monitors); the others (uninterpreted
        # kernels) are replaced by the real code in a native replay
        for i, sf in enumerate(ob.get('native_stub_files') or ob.stub_files):
            o = os.path.join(workdir, 'stub%d.o' % i)
            r = sh(cc + hfl + ['-include', hdr, '-c', os.path.join(VERIF, sf), '-o', o], timeout=300)
            if r['rc'] != 0: return None, 'native stub compile failed: ' + r['err'][-1000:]
            stub_objs.append(o)
            nm = sh(['nm', '--defined-only', '-g', o])['out']
            syms |= {l.split()[-1] for l in nm.splitlines() if l.split()}
        lib2 = os.path.join(workdir, 'libbee2w.a')
        shutil.copy(lib, lib2)
        sf = os.path.join(workdir, 'weaken.txt')
        open(sf, 'w').write('\n'.join(sorted(syms)) + '\n')
        r = sh(['objcopy', '--weaken-symbols=' + sf, lib2])
        if r['rc'] != 0: return None, 'objcopy failed ' + r['err']
        lib = lib2
    # sources listed with their own -D options (second configuration of the same file, externals renamed: C19)
    # are compiled natively with those options and linked next to the library
    for i, srcspec in enumerate(ob.srcs):
        if isinstance(srcspec, (tuple, list)) and srcspec[1].get('defs'):
            o = os.path.join(workdir, 'cfg%d.o' % i)
            r = sh(cc + fl + ['-D' + d for d in srcspec[1]['defs']] + ['-c', os.path.join(REPO, srcspec[0]), '-o', o], timeout=300)
            if r['rc'] != 0: return None, 'native compile of configured source failed: ' + r['err'][-800:]
            stub_objs.append(o)
    main_c = os.path.join(workdir, 'vp_main.c')
    with open(main_c, 'w') as f:
        f.write('extern void %s(void);\n#include <stdio.h>\nint main(void){ %s(); printf("VP_NOT_REPRODUCED\\n"); return 0; }\n' % (ob.entry, ob.entry))
    exe = os.path.join(workdir, 'replay.exe')
    r = sh(cc + hfl + ['-include', hdr, os.path.join(VERIF, ob.harness)] +
           [os.path.join(VERIF, e) for e in ex] + [main_c] + stub_objs + ['-Wl,--whole-archive'] * 0 + [lib, '-o', exe, '-lpthread', '-ldl', '-Wl,--unresolved-symbols=ignore-all', '-no-pie'], timeout=300)
    if r['rc'] != 0: return None, 'native link failed: ' + r['err'][-1500:]
    return exe, None

def native_replay(ob, init_c, workdir):
    """-> ('reproduced'|'not'|'assume'|'error', text)"""
    asan = (ob.replay == 'asan')
    exe, err = native_build(ob, init_c, workdir, asan=asan)
    if err: return 'error', err
    env = dict(os.environ); env['ASAN_OPTIONS'] = 'detect_leaks=0:abort_on_error=0:exitcode=1'
    r = sh([exe], timeout=120, env=env)
    txt = (r['out'] + r['err'])[-2000:]
    if 'VP_REPRODUCED' in r['out']: return 'reproduced', txt
    if asan and ('AddressSanitizer' in r['err'] or 'runtime error' in r['err']): return 'reproduced', txt
    if r['rc'] == 77: return 'assume', txt
    if r['rc'] == 0: return 'not', txt
    if r['rc'] < 0 or r['rc'] in (134, 139): return 'reproduced', 'crash rc=%s %s' % (r['rc'], txt)
    return 'not', txt

# ---------------------------------------------------------------- running one obligation

CPU_SEM = None   # threading.Semaphore limiting concurrent solver processes
JOBS = 14
import threading as _th
_SLOT_LOCK = _th.Lock()
class Slots:
    """memory-aware admission: an obligation with a large memory cap occupies several of the job slots"""
    def __init__(self, ob): self.k = max(1, min(JOBS, int(ob.mem_gb) // 5))
    def __enter__(self):
        with _SLOT_LOCK:
            for _ in range(self.k): CPU_SEM.acquire()
    def __exit__(self, *a):
        for _ in range(self.k): CPU_SEM.release()

def check_entry(ob, gb, entry, workdir, tier):
    """run cbmc on one entry point of a linked goto binary; returns a result dict (verdict etc.)"""
    res = dict(verdict=None, detail='', queries=0, solver_s=0.0, failed=[], witness=None, replay=None, entry=entry)
    eob = Ob(**dict(ob)); eob['entry'] = entry
    bes = [ob.backend] if isinstance(ob.backend, str) else list(ob.backend)
    with Slots(ob):
        if len(bes) == 1:
            r = sh(cbmc_cmd(eob, gb, backend=bes[0]), timeout=ob.timeout, mem_gb=ob.mem_gb, env=shim_env(ob, bes[0]))
            be = bes[0]
        else:
            i, r = race([(cbmc_cmd(eob, gb, backend=b), shim_env(ob, b)) for b in bes], ob.timeout, ob.mem_gb)
            be = bes[i]
    res['backend'] = be
    res['queries'] += 1; res['solver_s'] += r['wall']
    out = r['out']
    m = re.search(r'(\d+) variables, (\d+) clauses', out)
    if m: res['vars'] = int(m.group(1)); res['clauses'] = int(m.group(2))
    if r['timeout']:
        res.update(verdict='UNDECIDED', detail='timeout %ds' % ob.timeout); return res
    if '(error' in out or '(error' in r['err']:
        res.update(verdict='UNDECIDED', detail='solver error line'); return res
    props = RES_RE.findall(out)
    if not props or ('VERIFICATION SUCCESSFUL' not in out and 'VERIFICATION FAILED' not in out):
        low = (out + r['err']).lower()
        if 'out of memory' in low or 'bad_alloc' in low or r['rc'] in (-9, -6, 137, 134):
            res.update(verdict='UNDECIDED', detail='memory cap %sG rc=%s' % (ob.mem_gb, r['rc']))
        else:
            res.update(verdict='BROKEN', detail='cbmc rc=%s: %s' % (r['rc'], (out[-1200:] + r['err'][-1200:])))
        return res
    res['properties'] = len(props)
    wit = [p for p in props if 'VP_WITNESS' in p[1]]
    # several VP_WITNESS sites may exist in one harness file (alternative bodies); the entry point under test
    # must reach at least one of them
    res['witness'] = bool(wit) and any(p[2] == 'FAILURE' for p in wit)
    failed = [p for p in props if p[2] != 'SUCCESS' and 'VP_WITNESS' not in p[1]]
    # forming an out-of-object pointer without dereferencing it is C-level UB that no native run
    # can confirm: recorded as ub_notes, never as VIOLATION (a dereference has its own property)
    ubn = [p for p in failed if 'pointer arithmetic:' in p[1] and p[2] == 'FAILURE']
    if ubn: res['ub_notes'] = ['%s %s' % (p[0], p[1][:160]) for p in ubn[:6]]
    failed = [p for p in failed if p not in ubn]
    uw = [p for p in failed if 'unwinding assertion' in p[1]]
    real = [p for p in failed if 'unwinding assertion' not in p[1] and p[2] == 'FAILURE']
    res['failed'] = [(p[0], p[1]) for p in failed]
    if not ob.nowitness and not res['witness']:
        res.update(verdict='BROKEN', detail='reachability witness did not fire (vacuous harness)')
        return res
    nobody = [p for p in real if 'no body for callee' in p[1]]
    if nobody:
        res.update(verdict='BROKEN', detail='incomplete link: ' + '; '.join(sorted({p[1] for p in nobody}))[:400]); return res
    if not real:
        if uw:
            res.update(verdict='UNDECIDED', detail='unwinding assertion failed: ' + '; '.join(p[0] for p in uw[:4]))
        elif failed:
            res.update(verdict='UNDECIDED', detail='non-success status: ' + '; '.join(p[0] + ' ' + p[2] for p in failed[:4]))
        else:
            res.update(verdict='HOLDS')
        return res
    # candidate violation: obtain the solver's input assignment and replay it
    pid, pdesc, _ = real[0]
    with Slots(ob):
        r2 = sh(cbmc_cmd(eob, gb, ['--property', pid, '--trace', '--json-ui'], backend=be), timeout=max(ob.timeout, 300) * 2,
                mem_gb=ob.mem_gb, env=shim_env(ob, be))
    res['queries'] += 1; res['solver_s'] += r2['wall']
    init_c = None
    try:
        js = json.loads(r2['out'])
        for e in js:
            if 'result' in e:
                for pr in e['result']:
                    if pr.get('status') == 'FAILURE' and 'trace' in pr and pr.get('property') == pid:
                        v = extract_input(pr['trace'], entry)
                        if v is not None: init_c = val_to_c(v)
    except Exception as ex:
        res['detail'] += ' trace parse error: %r' % ex
    tag = ob.name if entry == ob.entry else ob.name + '.' + entry
    rp = dict(obligation=ob.name, property=pid, description=pdesc, harness=ob.harness,
              entry=entry, init=init_c, module=ob.get('module'), tier=tier)
    os.makedirs(os.path.join(VERIF, 'replay'), exist_ok=True)
    rpath = os.path.join(VERIF, 'replay', tag + '.json')
    with open(rpath, 'w') as f: json.dump(rp, f, indent=1)
    res['replay'] = rpath
    res['cex_property'] = pid; res['cex_desc'] = pdesc
    res['all_failed'] = [(p[0], p[1]) for p in real]
    if init_c is None:
        res.update(verdict='UNCONFIRMED', detail='no input assignment extracted from trace'); return res
    res['cex_input'] = init_c if len(init_c) < 4000 else init_c[:4000] + '...'
    if ob.replay == 'none':
        res.update(verdict='VIOLATION', detail='solver counterexample (no native replay for this obligation: %s)' % ob.get('noreplay_reason', ''))
        return res
    rwd = os.path.join(workdir, 'replay-' + entry); os.makedirs(rwd, exist_ok=True)
    with CPU_SEM:
        st, txt = native_replay(eob, init_c, rwd)
    res['replay_status'] = st; res['replay_out'] = txt[-600:]
    if st == 'reproduced':
        res.update(verdict='VIOLATION', detail='%s: %s' % (pid, pdesc))
    else:
        res.update(verdict='UNCONFIRMED', detail='%s: %s; native replay: %s %s' % (pid, pdesc, st, txt[-300:]))
    return res

def gen_instances(ob, workdir):
    """ob.instances = [(entry_name, 'C argument list')]: entry points that call the harness body
    vp_body(...) with CONCRETE lengths (constants propagate through symbolic execution, so no
    symbolic-size memory operation is left); the data stay symbolic"""
    path = os.path.join(workdir, 'inst_' + os.path.basename(ob.harness))
    with open(path, 'w') as f:
        f.write('#include "%s"\n' % os.path.join(VERIF, ob.harness))
        for name, args in ob.instances:
            f.write('void %s(void) { VP_INPUT(); vp_body(&in, %s); }\n' % (name, args))
    return path

def run_ob(ob, tier, keep=False):
    t0 = time.time()
    res = dict(name=ob.name, verdict=None, bound=ob.bound, backend=ob.backend, queries=0,
               solver_s=0.0, detail='', failed=[], witness=None, replay=None, funcs=ob.funcs, stubs=ob.stubs)
    workdir = os.path.join(BUILD, 'work', ob.name)
    shutil.rmtree(workdir, ignore_errors=True)
    os.makedirs(workdir, exist_ok=True)
    try:
        if ob.kind == 'custom':
            with CPU_SEM:
                r = ob.run(ob, tier, workdir)
            res.update(r)
            return res
        bob = ob
        if ob.instances:
            bob = Ob(**dict(ob)); bob['harness'] = os.path.relpath(gen_instances(ob, workdir), VERIF)
        with CPU_SEM:
            gb, err = build_ob(bob, workdir)
        if err:
            res.update(verdict='BROKEN', detail=err); return res
        if not ob.instances:
            res.update(check_entry(bob, gb, ob.entry, workdir, tier))
            return res
        subs = []
        with ThreadPoolExecutor(max_workers=16) as ex:
            for r in ex.map(lambda e: check_entry(bob, gb, e[0], workdir, tier), ob.instances):
                subs.append(r)
        res['queries'] = sum(r['queries'] for r in subs); res['solver_s'] = sum(r['solver_s'] for r in subs)
        res['instances'] = len(subs)
        res['instances_held'] = sum(r['verdict'] == 'HOLDS' for r in subs)
        res['witness'] = all(r.get('witness') for r in subs)
        res['vars'] = max([r.get('vars') or 0 for r in subs] or [0])
        order = ['VIOLATION', 'BROKEN', 'UNCONFIRMED', 'UNDECIDED', 'HOLDS']
        worst = sorted(subs, key=lambda r: order.index(r['verdict']))[0]
        res['verdict'] = worst['verdict']
        for k in ('replay', 'cex_property', 'cex_desc', 'all_failed', 'cex_input', 'replay_status', 'failed', 'ub_notes'):
            if worst.get(k): res[k] = worst[k]
        nb = [r for r in subs if r['verdict'] != 'HOLDS']
        res['detail'] = ('%d/%d instances hold' % (res['instances_held'], len(subs))) + \
            ('; first bad: %s %s' % (worst['entry'], worst['detail'][:300]) if nb else '')
        return res
    except Exception as ex:
        import traceback
        res.update(verdict='BROKEN', detail='driver exception: ' + traceback.format_exc()[-1500:])
        return res
    finally:
        res['wall_s'] = round(time.time() - t0, 2)
        if not keep: shutil.rmtree(workdir, ignore_errors=True)

# ---------------------------------------------------------------- known findings

def load_known():
    p = os.path.join(VERIF, 'known_findings.json')
    if not os.path.exists(p): return []
    return json.load(open(p)).get('findings', [])

def match_known(pid, res, known):
    """a finding entry matches when property id, obligation-name regex and the regex
    over 'failed property description' match; only status == 'known' suppresses"""
    for k in known:
        if k.get('status') != 'known' or k.get('property') != pid: continue
        if not re.search(k.get('obligation', '.*'), res['name']): continue
        descs = ' | '.join(d for _, d in res.get('all_failed', [])) or res.get('cex_desc', '')
        if all(re.search(k.get('assertion', '.*'), d) for _, d in res.get('all_failed', [('', descs)])):
            return k
    return None

# ---------------------------------------------------------------- main

def cleanup_build():
    os.makedirs(BUILD, exist_ok=True)
    cur = 'cache-' + tree_hash()
    for d in os.listdir(BUILD):
        if d.startswith('cache-') and d != cur:
            shutil.rmtree(os.path.join(BUILD, d), ignore_errors=True)

def do_replay(path):
    global CPU_SEM
    import threading
    CPU_SEM = threading.Semaphore(16)
    rp = json.load(open(path))
    mod = importlib.import_module('props.' + rp['module'])
    obs = [o for t in (rp.get('tier', 'thorough'), 'quick', 'thorough') for o in mod.obligations(t) if o.name == rp['obligation']]
    if not obs:
        print('unknown obligation', rp['obligation']); return 2
    ob = obs[0]
    wd = os.path.join(BUILD, 'work', 'replay-' + ob.name)
    shutil.rmtree(wd, ignore_errors=True); os.makedirs(wd)
    if ob.kind == 'custom':
        return ob.run(ob, 'replay', wd, replay=rp)
    if ob.instances:
        ob = Ob(**dict(ob)); ob['harness'] = os.path.relpath(gen_instances(ob, wd), VERIF)
    ob['entry'] = rp.get('entry', ob.entry)
    st, txt = native_replay(ob, rp['init'], wd)
    print('replay of %s (%s): %s' % (ob.name, rp['description'], st)); print(txt)
    shutil.rmtree(wd, ignore_errors=True)
    return 1 if st == 'reproduced' else 0

def main():
    ap = argparse.ArgumentParser()
    ap.add_argument('pid', nargs='?')
    ap.add_argument('--tier', default=os.environ.get('VERIF_TIER', 'quick'))
    ap.add_argument('--only', default=None)
    ap.add_argument('--jobs', type=int, default=int(os.environ.get('VP_JOBS', '14')))
    ap.add_argument('--list', action='store_true')
    ap.add_argument('--keep', action='store_true')
    ap.add_argument('--replay', default=None)
    ap.add_argument('--no-evidence', action='store_true')
    a = ap.parse_args()
    if a.replay: sys.exit(do_replay(a.replay))
    pid = a.pid
    seed = int(os.environ.get('VERIF_SEED', '0') or 0)
    t0 = time.time()
    mod = importlib.import_module('props.' + pid)
    obs = mod.obligations(a.tier)
    for o in obs: o['module'] = pid
    if a.only: obs = [o for o in obs if re.search(a.only, o.name)]
    if a.list:
        for o in obs: print(o.name, '|', o.bound)
        return 0
    cleanup_build()
    random.Random(seed).shuffle(obs)
    # longest first helps the pool
    obs.sort(key=lambda o: -o.timeout)
    known = load_known()
    results = []
    global CPU_SEM, JOBS
    import threading
    JOBS = a.jobs
    CPU_SEM = threading.Semaphore(a.jobs)
    with ThreadPoolExecutor(max_workers=max(a.jobs, 48)) as ex:
        futs = {ex.submit(run_ob, o, a.tier, a.keep): o for o in obs}
        for f in as_completed(futs):
            r = f.result(); results.append(r)
            print('[%s] %-44s %-11s %6.1fs %s' % (pid, r['name'], r['verdict'], r.get('wall_s', 0),
                  (r['detail'] or '')[:200].replace('\n', ' ')), flush=True)
    results.sort(key=lambda r: r['name'])
    viol = []; knownhits = []; broken = []
    for r in results:
        if r['verdict'] == 'VIOLATION':
            k = match_known(pid, r, known)
            if k: knownhits.append((r, k))
            else: viol.append(r)
        elif r['verdict'] == 'BROKEN': broken.append(r)
    for r, k in knownhits:
        print('KNOWN-FINDING: property=%s %s [%s]' % (pid, k.get('what', ''), r['name']))
    for r in viol:
        print('VIOLATION property=%s replay=%s' % (pid, r['replay']))
        print('  obligation=%s assertion=%s' % (r['name'], r['detail'][:300]))
    for r in broken:
        print('BROKEN obligation=%s: %s' % (r['name'], r['detail'][:600]))
    if not a.no_evidence and not a.only:
        write_evidence(pid, a.tier, seed, mod, results, viol, knownhits, time.time() - t0)
    n = len(results); h = sum(r['verdict'] == 'HOLDS' for r in results)
    print('[%s] tier=%s obligations=%d holds=%d violation=%d known=%d unconfirmed=%d undecided=%d broken=%d wall=%.0fs' % (
        pid, a.tier, n, h, len(viol), len(knownhits), sum(r['verdict'] == 'UNCONFIRMED' for r in results),
        sum(r['verdict'] == 'UNDECIDED' for r in results), len(broken), time.time() - t0))
    # CBMC leaves the CNF file of an --external-sat-solver run behind when a raced back end is killed
    import glob
    for f in glob.glob('/tmp/external-sat*.cnf'):
        m = re.match(r'.*external-sat(\d+)\.', f)
        if m and not os.path.exists('/proc/' + m.group(1)):
            try: os.unlink(f)
            except OSError: pass
    if viol: return 1
    if broken: return 2
    return 0

def write_evidence(pid, tier, seed, mod, results, viol, knownhits, wall):
    meta = getattr(mod, 'META', {})
    decided = [r for r in results if r['verdict'] in ('HOLDS', 'VIOLATION') and (r.get('witness') or r.get('witness') is None and r['verdict'])]
    rnd = random.Random(seed)
    pool = sorted(results, key=lambda r: r['name'])
    picks = rnd.sample(pool, min(6, len(pool)))
    for r in results:
        if r['verdict'] in ('VIOLATION', 'UNCONFIRMED') and r not in picks: picks.append(r)
    samples = [dict(obligation=r['name'], verdict=r['verdict'], bound=r.get('bound'), backend=r.get('backend'),
                    solver_s=round(r.get('solver_s', 0), 2), vars=r.get('vars'), clauses=r.get('clauses'),
                    cbmc_properties=r.get('properties'), failed=r.get('failed')[:5] if r.get('failed') else [],
                    input=r.get('cex_input'), detail=(r.get('detail') or '')[:300]) for r in picks]
    funcs = sorted({f for r in results for f in (r.get('funcs') or [])})
    ev = dict(
        property_id=pid, tier=tier, seed=seed, level='model_checking',
        coverage=dict(
            evaluations=sum(r.get('queries', 0) for r in results) or 1,
            distinct_nontrivial=len(decided),
            rule='one case = one proof obligation (harness x bound x profile) decided by a SAT/SMT back end over ALL input values inside the bound; '
                 'counted as non-trivial only if decided (unsat or replayed sat) AND its reachability witness assertion was violated (harness not vacuous)',
            samples=samples,
            obligations=len(results),
            discharged=sum(r['verdict'] == 'HOLDS' for r in results),
            undecided=[dict(obligation=r['name'], why=r['detail'][:200]) for r in results if r['verdict'] == 'UNDECIDED'],
            unconfirmed=[dict(obligation=r['name'], why=r['detail'][:300]) for r in results if r['verdict'] == 'UNCONFIRMED'],
            broken=[dict(obligation=r['name'], why=r['detail'][:300]) for r in results if r['verdict'] == 'BROKEN'],
            known_findings=[dict(obligation=r['name'], what=k.get('what')) for r, k in knownhits],
            ub_notes=[dict(obligation=r['name'], notes=r['ub_notes']) for r in results if r.get('ub_notes')],
            functions_encoded=funcs,
            bounds={r['name']: r.get('bound') for r in results},
            stubs=sorted({s for r in results for s in (r.get('stubs') or [])}) or meta.get('stubs', []),
            solver_s=round(sum(r.get('solver_s', 0) for r in results), 1),
            not_decided=meta.get('not_decided', []),
            checker_cmd='cbmc 6.11.0 (goto-cc front end on /repo sources) --unwinding-assertions; see vp_check.py cbmc_cmd()',
            exhaustive=False,
            repo_tree_hash=tree_hash(),
        ),
        assumptions=meta.get('assumptions', []),
        wall_s=round(wall, 1),
        violations=len(viol),
    )
    # stubs are stored on obligations, copy them into results for the evidence
    os.makedirs(os.path.join(VERIF, 'evidence'), exist_ok=True)
    with open(os.path.join(VERIF, 'evidence', pid + '.json'), 'w') as f:
        json.dump(ev, f, indent=1, default=str)

if __name__ == '__main__':
    sys.exit(main())
