/* C18: mtCallOnce / atomic primitives under all interleavings of NTHR threads (CBMC partial-order encoding,
 * sequential consistency; --mm tso/pso in the thorough tier). The waiters' spin loop is bounded by the
 * unwinding limit WITHOUT an unwinding assertion: schedules in which a waiter spins longer are outside the bound. */
#include "vp.h"
#include <bee2/core/mt.h>

#ifndef NTHR
#define NTHR 2
#endif
struct vp_in { int dummy; };

size_t once;
int counter;
int payload;
int seen[3];
size_t ctr;

static void init_fn(void) { ++counter; payload = 42; }

/* threads are started with CBMC's __CPROVER_ASYNC_n labels (the pthread_create model writes through a shared
 * pointer, which CBMC 6.11 refuses: "pointer handling for concurrency is unsound"); join = wait for done[] */
int done[3];
#ifdef VP_CBMC
#define SPAWN_(n, call) __CPROVER_ASYNC_##n: call
#define SPAWN(n, call) SPAWN_(n, call)
/* thread exit / join are synchronisation points: full fences (only matter under --mm tso/pso) */
#define FENCE() __CPROVER_fence("WWfence", "RRfence", "RWfence", "WRfence")
#define JOIN_ALL() do { __CPROVER_assume(done[0] && done[1] && (NTHR < 3 || done[2])); FENCE(); } while (0)
#else
#define SPAWN(n, call) call
#define FENCE() do {} while (0)
#define JOIN_ALL() do {} while (0)
#endif

static void thr_once(int id)
{
	mtCallOnce(&once, init_fn);
	seen[id] = payload;       /* effects of the initialiser must be visible to every caller that returns */
	FENCE(); done[id] = 1;
}

void h_once(void)
{
	int i;
	VP_INPUT();
	once = 0; counter = 0; payload = 0;
	SPAWN(1, thr_once(0)); SPAWN(2, thr_once(1));
#if NTHR >= 3
	SPAWN(3, thr_once(2));
#endif
	JOIN_ALL();
	VP_WITNESS();
	VP_ASSERT(counter == 1, "the initialiser ran exactly once");
	VP_ASSERT(once == 1, "trigger left in the 'done' state");
	for (i = 0; i < NTHR; ++i) VP_ASSERT(seen[i] == 42, "every caller that returned saw the initialiser's effects");
}

static size_t ret_v[3], ret_w[3], ret_d[3];
static void thr_ctr(int id)
{
	size_t v = mtAtomicIncr(&ctr);
	size_t w = mtAtomicIncr(&ctr);
	ret_v[id] = v; ret_w[id] = w;
	ret_d[id] = mtAtomicDecr(&ctr);
	FENCE(); done[id] = 1;
}

void h_atomic(void)
{
	VP_INPUT();
	ctr = 0;
	SPAWN(1, thr_ctr(0)); SPAWN(2, thr_ctr(1));
#if NTHR >= 3
	SPAWN(3, thr_ctr(2));
#endif
	JOIN_ALL();
	VP_WITNESS();
	VP_ASSERT(ctr == NTHR, "atomic counter: no lost update (2 increments, 1 decrement per thread)");
}

static size_t cas_won[3];
static void thr_cas(int id)
{
	cas_won[id] = (mtAtomicCmpSwap(&ctr, 0, 7) == 0);
	FENCE(); done[id] = 1;
}
void h_cas(void)
{
	int i; size_t w = 0;
	VP_INPUT();
	ctr = 0;
	SPAWN(1, thr_cas(0)); SPAWN(2, thr_cas(1));
#if NTHR >= 3
	SPAWN(3, thr_cas(2));
#endif
	JOIN_ALL();
	for (i = 0; i < NTHR; ++i) w += cas_won[i];
	VP_WITNESS();
	VP_ASSERT(w == 1 && ctr == 7, "compare-and-swap: exactly one thread wins");
}

/* return values: with increments only, the value returned by an atomic increment is the value IT produced,
 * so the 2*NTHR returns are pairwise distinct (they are exactly 1..2*NTHR) */
static void thr_inc2(int id)
{
	ret_v[id] = mtAtomicIncr(&ctr);
	ret_w[id] = mtAtomicIncr(&ctr);
	FENCE(); done[id] = 1;
}
void h_atomic_ret(void)
{
	int i, j, distinct = 1;
	VP_INPUT();
	ctr = 0;
	SPAWN(1, thr_inc2(0)); SPAWN(2, thr_inc2(1));
#if NTHR >= 3
	SPAWN(3, thr_inc2(2));
#endif
	JOIN_ALL();
	VP_WITNESS();
	VP_ASSERT(ctr == 2 * NTHR, "no lost update");
	for (i = 0; i < NTHR; ++i)
	{
		if (ret_v[i] == ret_w[i] || ret_v[i] < 1 || ret_w[i] > 2 * NTHR) distinct = 0;
		for (j = 0; j < NTHR; ++j) if (i != j && (ret_v[i] == ret_v[j] || ret_v[i] == ret_w[j] || ret_w[i] == ret_w[j])) distinct = 0;
	}
	VP_ASSERT(distinct, "every atomic increment returns the value it produced (returns pairwise distinct, in 1..2*NTHR)");
}
