/* C18: the shared generator of rng.c - lock discipline and reference counting.
 * CBMC 6.11 refuses multi-threaded programs that dereference a shared pointer ("pointer handling for
 * concurrency is unsound"), and rng.c keeps its state behind the shared pointer _state, so thread
 * interleavings of rng.c cannot be encoded. What IS decided here (sequentially, for every program of
 * up to NCALL API calls chosen by the solver and every outcome of the entropy sources):
 *   - every call into the generator kernels (brngCTRStart/StepR, beltHash*), every allocation/release of
 *     the shared state and every caller-source callback happens while the mutex is held exactly once
 *     (mtMtxLock/mtMtxUnlock are replaced by a lock-depth monitor), and the lock is released on every
 *     return path - so no generator step can run concurrently with another (data-race freedom by lock
 *     discipline, given that the mutex works);
 *   - the reference count equals the number of outstanding references and the state exists iff it is > 0.
 * rng.c is #included so that the file-local _mtx/_ctr/_state/_inited are visible. */
#include "vp.h"
#include <bee2/core/mt.h>
#include <bee2/core/blob.h>
#include <bee2/core/err.h>
#include <bee2/core/rng.h>
#include <bee2/crypto/belt.h>
#include <bee2/crypto/brng.h>
/* rng.c is compiled with -Dstatic= (file-local state becomes visible) and without the body of rngESRead */
extern size_t _ctr; extern void* _state; extern bool_t _inited;
static int vp_depth; static int vp_bad;
void mtMtxLock(mt_mtx_t* m) { if (vp_depth != 0) vp_bad = 1; ++vp_depth; }
void mtMtxUnlock(mt_mtx_t* m) { if (vp_depth != 1) vp_bad = 1; --vp_depth; }
bool_t mtMtxCreate(mt_mtx_t* m) { return TRUE; }
void mtMtxClose(mt_mtx_t* m) {}
bool_t mtMtxIsValid(const mt_mtx_t* m) { return TRUE; }
#define INLOCK() do { if (vp_depth != 1) vp_bad = 1; } while (0)

#ifndef NCALL
#define NCALL 5
#endif
struct vp_in { unsigned char op[NCALL]; unsigned char es_ok[NCALL][8]; unsigned char src_ok[NCALL]; };

/* ---- environment: generator kernels, allocator, entropy sources ---- */
static unsigned vp_es_pos; static const struct vp_in* vp_pin; static unsigned vp_call;
size_t brngCTR_keep(void) { return 8; }
void brngCTRStart(void* state, const octet key[32], const octet iv[32]) { INLOCK(); }
void brngCTRStepR(void* buf, size_t count, void* state) { INLOCK(); }
void brngCTRStepG(octet iv[32], void* state) { INLOCK(); }
size_t beltHash_keep(void) { return 8; }
void beltHashStart(void* state) { INLOCK(); }
void beltHashStepH(const void* buf, size_t count, void* state) { INLOCK(); }
void beltHashStepG(octet hash[32], void* state) { INLOCK(); }
bool_t utilOnExit(void (*fn)()) { return TRUE; }
static int vp_live;
blob_t blobCreate(size_t size) { void* p; INLOCK(); p = malloc(size); VP_MALLOC_OK(p); ++vp_live; return p; }
void blobClose(blob_t blob) { INLOCK(); if (blob) { --vp_live; free(blob); } }
bool_t blobIsValid(const blob_t blob) { return blob != 0; }
bool_t mtCallOnce(size_t* once, void (*fn)()) { if (*once == 0) { fn(); *once = 1; } return TRUE; }
err_t rngESRead(size_t* read, void* buf, size_t count, const char* source)
{
	unsigned k = vp_es_pos++ % 8;
	INLOCK();
	if (vp_pin->es_ok[vp_call][k] & 1) { *read = count; return ERR_OK; }
	*read = 0; return ERR_BAD_ENTROPY;
}
static err_t vp_src(size_t* read, void* buf, size_t count, void* state)
{
	INLOCK();
	if (vp_pin->src_ok[vp_call]) { *read = count; return ERR_OK; }
	return ERR_BAD_ENTROPY;
}

void h_rng(void)
{
	VP_INPUT();
	unsigned i; size_t refs = 0; octet buf[8];
	vp_pin = &in;
	for (i = 0; i < NCALL; ++i)
	{
		unsigned op = in.op[i] % 6;
		vp_call = i;
		if (op == 0)
		{
			err_t e = rngCreate(in.src_ok[i] & 2 ? vp_src : 0, 0);
			if (e == ERR_OK) ++refs;
		}
		else if (refs > 0)     /* the header requires a held reference for the other calls */
		{
			if (op == 1) rngStepR(buf, 8, 0);
			else if (op == 2) rngStepR2(buf, 8, 0);
			else if (op == 3) rngRekey();
			else if (op == 4) { VP_ASSERT(rngIsValid(), "rngIsValid while a reference is held"); }
			else { rngClose(); --refs; }
		}
		VP_ASSERT(vp_depth == 0, "mutex released on every return path");
		VP_ASSERT(!vp_bad, "generator kernels, state allocation/release and source callbacks only run with the mutex held (once)");
		VP_ASSERT(_ctr == refs, "reference count == outstanding references");
		VP_ASSERT((_state != 0) == (refs > 0) && vp_live == (refs > 0), "shared state exists iff a reference is outstanding; freed exactly once");
	}
	VP_WITNESS();
}
