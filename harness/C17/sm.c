/* C17: secure messaging (btok_sm.c, real code) over the uninterpreted belt cipher:
 * a peer whose counter is in step recovers every protected command / response unchanged; calls made at a
 * counter of the wrong parity are refused with ERR_BAD_LOGIC. Data lengths are concrete (instances), all
 * header octets, data, Le, keys and the counter value are symbolic. The two SM states are laid out by hand
 * (same symbolic key1/key2/ctr) so that btokSMStart (key diversification) is not part of the query.
 * Detection of altered octets is NOT asserted here: under an uninterpreted MAC the solver may choose colliding tags. */
#include "vp.h"
#include <bee2/core/apdu.h>
#include <bee2/core/err.h>
#include <bee2/crypto/btok.h>

#ifndef DMAX
#define DMAX 20
#endif
struct vp_in { octet key1[32]; octet key2[32]; octet ctr[16]; octet cla, ins, p1, p2; octet data[DMAX]; size_t rdf_len; octet sw1, sw2; };

typedef struct { octet key1[32]; octet key2[32]; octet ctr[16]; } sm_head;     /* leading members of btok_sm_st */
static void* mk_state(const struct vp_in* in)
{
	octet* st = (octet*)malloc(btokSM_keep()); sm_head* h = (sm_head*)st;
	VP_MALLOC_OK(st);
	memcpy(h->key1, in->key1, 32); memcpy(h->key2, in->key2, 32); memcpy(h->ctr, in->ctr, 16);
	return st;
}
#define APDU_MAX (4 + 3 + (DMAX + 24) + 16 + 3)

static void vp_cmd(struct vp_in* pin, size_t cdf_len, size_t rdf_sel)
{
#define in (*pin)
	union { apdu_cmd_t c; octet raw[sizeof(apdu_cmd_t) + DMAX]; } u, v;
	octet apdu[APDU_MAX]; size_t count = 0, size = 0; void* a; void* b; err_t e;
	static const size_t RDF[6] = { 0, 1, 256, 257, 65536, 12345 };
	VP_ASSUME(cdf_len <= DMAX && (in.cla & 0x04) == 0);
	u.c.cla = in.cla; u.c.ins = in.ins; u.c.p1 = in.p1; u.c.p2 = in.p2; u.c.cdf_len = cdf_len;
	u.c.rdf_len = rdf_sel < 6 ? RDF[rdf_sel] : in.rdf_len;
	VP_ASSUME(u.c.rdf_len <= 65536);
	memcpy(u.c.cdf, in.data, DMAX);
	a = mk_state(&in); b = mk_state(&in);
	e = btokSMCmdWrap(0, &count, &u.c, a);
	VP_WITNESS();
	if (in.ctr[0] & 1)
	{	/* command protection happens at an odd counter (after btokSMCtrInc); an even counter is refused */
		VP_ASSERT(e == ERR_OK && count <= APDU_MAX, "btokSMCmdWrap length query");
		e = btokSMCmdWrap(apdu, &count, &u.c, a);
		VP_ASSERT(e == ERR_OK, "btokSMCmdWrap protects at the right counter parity");
		e = btokSMCmdUnwrap(0, &size, apdu, count, b);
		VP_ASSERT(e == ERR_OK && size == sizeof(apdu_cmd_t) + cdf_len, "btokSMCmdUnwrap size query of a protected command");
		e = btokSMCmdUnwrap(&v.c, &size, apdu, count, b);
		VP_ASSERT(e == ERR_OK, "peer in step accepts the protected command");
		VP_ASSERT(v.c.cla == u.c.cla && v.c.ins == u.c.ins && v.c.p1 == u.c.p1 && v.c.p2 == u.c.p2 && v.c.cdf_len == cdf_len &&
			v.c.rdf_len == u.c.rdf_len && vp_eq(v.c.cdf, u.c.cdf, cdf_len), "recovered command == original command");
	}
	else
	{
		e = btokSMCmdWrap(apdu, &count, &u.c, a);
		VP_ASSERT(e == ERR_BAD_LOGIC, "btokSMCmdWrap at a counter of the wrong parity is refused");
	}
#undef in
}

static void vp_resp(struct vp_in* pin, size_t rdf_len)
{
#define in (*pin)
	union { apdu_resp_t r; octet raw[sizeof(apdu_resp_t) + DMAX]; } u, v;
	octet apdu[APDU_MAX]; size_t count = 0, size = 0; void* a; void* b; err_t e;
	VP_ASSUME(rdf_len <= DMAX);
	u.r.sw1 = in.sw1; u.r.sw2 = in.sw2; u.r.rdf_len = rdf_len; memcpy(u.r.rdf, in.data, DMAX);
	a = mk_state(&in); b = mk_state(&in);
	e = btokSMRespWrap(0, &count, &u.r, a);
	VP_WITNESS();
	if ((in.ctr[0] & 1) == 0)
	{
		VP_ASSERT(e == ERR_OK && count <= APDU_MAX, "btokSMRespWrap length query");
		e = btokSMRespWrap(apdu, &count, &u.r, a);
		VP_ASSERT(e == ERR_OK, "btokSMRespWrap protects at the right counter parity");
		e = btokSMRespUnwrap(&v.r, &size, apdu, count, b);
		VP_ASSERT(e == ERR_OK, "peer in step accepts the protected response");
		VP_ASSERT(v.r.sw1 == u.r.sw1 && v.r.sw2 == u.r.sw2 && v.r.rdf_len == rdf_len && vp_eq(v.r.rdf, u.r.rdf, rdf_len), "recovered response == original response");
	}
	else
	{
		e = btokSMRespWrap(apdu, &count, &u.r, a);
		VP_ASSERT(e == ERR_BAD_LOGIC, "btokSMRespWrap at a counter of the wrong parity is refused");
	}
#undef in
}
static void vp_body(struct vp_in* pin, size_t kind, size_t len, size_t rdf_sel) { if (kind == 0) vp_cmd(pin, len, rdf_sel); else vp_resp(pin, len); }
void harness(void) { VP_INPUT(); vp_body(&in, 0, 5, 6); }
