/* C15 K-lemma on the REAL memWipe (src/core/mem.c): after memWipe(buf, count)
 *   - every octet of [buf, buf + count) holds the value the routine's counter sequence dictates,
 *     a function of the ADDRESS only (first call: counter starts at 0; octet i gets
 *     (octet)ctr_i, ctr_{i+1} = ctr_i + 17 + ((size_t)(buf + i + 1) & 15)) - hence independent of the
 *     previous (secret) content: each octet was overwritten;
 *   - nothing outside [buf, buf + count) is touched (8 guard octets on either side, buffer end-aligned
 *     inside the array, any overrun beyond the guards is an out-of-object access).
 * count symbolic 0..NW. */
#include "vp.h"
#include <bee2/core/mem.h>
#ifndef NW
#define NW 40
#endif
struct vp_in {
	octet secret[NW + 16];
	size_t count;
};
#ifdef VP_CBMC
/* libc memchr as documented (CBMC has no built-in model) */
void* memchr(const void* s, int c, size_t n)
{
	const unsigned char* x = (const unsigned char*)s; size_t i;
	for (i = 0; i < n; ++i) if (x[i] == (unsigned char)c) return (void*)(x + i);
	return 0;
}
#endif
void h_memwipe(void)
{
	VP_INPUT();
	octet* a = (octet*)vp_alloc(NW + 16);
	octet* buf; size_t i, ctr = 0; int ok_in = 1, ok_out = 1;
	VP_ASSUME(in.count <= NW);
	memcpy(a, in.secret, NW + 16);
	buf = a + 8 + (NW - in.count);
	memWipe(buf, in.count);
	VP_WITNESS();
	for (i = 0; i < NW + 16; ++i)
	{
		if (a + i < buf || a + i >= buf + in.count)
			ok_out &= a[i] == in.secret[i];
		else
		{
			ok_in &= a[i] == (octet)ctr;
			ctr += 17 + ((size_t)(a + i + 1) & 15);
		}
	}
	VP_ASSERT(ok_in, "memWipe: every octet of [buf, buf + count) overwritten with the address-only counter sequence");
	VP_ASSERT(ok_out, "memWipe: nothing outside [buf, buf + count) touched");
	free(a);
}
