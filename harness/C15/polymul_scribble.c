#define VP_SCRIBBLE 1
#include "../C09/polymul_uf.c"
