/* disjoint_model.c (CBMC only) - object-aware memIsDisjoint2: the real routine compares the
 * addresses of unrelated objects with <= / >= (what every flat-memory target does; C leaves it
 * undefined and CBMC's pointer check flags it). Model: buffers inside different objects are
 * disjoint, inside one object the real interval test on the offsets decides. */
#include <bee2/core/mem.h>
bool_t memIsDisjoint2(const void* buf1, size_t count1, const void* buf2, size_t count2)
{
	if (count1 == 0 || count2 == 0) return TRUE;
	if (__CPROVER_POINTER_OBJECT(buf1) != __CPROVER_POINTER_OBJECT(buf2)) return TRUE;
	{
		size_t o1 = (size_t)__CPROVER_POINTER_OFFSET(buf1), o2 = (size_t)__CPROVER_POINTER_OFFSET(buf2);
		return o1 + count1 <= o2 || o1 >= o2 + count2;
	}
}

