/* C15: every heap block a high-level function obtained for its working state is wiped, and not
 * written again, before it is handed back to the allocator. memWipe/memFree/memAlloc = ghost
 * monitor (wipe_model.c), blob.c real with exact-size blobs, Start/Step code real, block cipher /
 * bash-f / GF(2^128) multiplication uninterpreted (their outputs are arbitrary values, the
 * multiplication stub scribbles over its stack area). Lengths concrete per instance; key, password,
 * data, iv, mac, header symbolic - so the success path AND the verification-failure path (wrong
 * mac / header / otp) of the unwrap and verify functions are inside the same query. */
#include "vp.h"
#include <bee2/core/err.h>
#include <bee2/core/tm.h>
#include <bee2/crypto/belt.h>
#include <bee2/crypto/bash.h>
#include <bee2/crypto/botp.h>
#include <bee2/crypto/brng.h>
#ifndef MAXN
#define MAXN 64
#endif
struct vp_in {
	octet src[MAXN + 16];
	octet src2[32];
	octet key[40];
	octet iv[32];
	octet mac[8];
	octet hdr[16];
	octet level[12];
	octet ctr[8];
	char otp[10];
	long long t;
};
enum { ECB_E, ECB_D, CBC_E, CBC_D, CFB_E, CFB_D, CTR, MAC, DWP_W, DWP_U, CHE_W, CHE_U, KWP_W, KWP_U, HASH,
	BDE_E, BDE_D, SDE_E, SDE_D, FMT_E, FMT_D, KRP, HMAC, PBKDF2, BRNG_CTR, BRNG_HMAC, BASH,
	HOTP_R, HOTP_V, TOTP_R, TOTP_V };

/* defined by wipe_model.c (CBMC model, or its native twin in a replay) */
extern unsigned vp_allocs, vp_frees, vp_wipes, vp_free_notbase, vp_free_uncovered, vp_free_dirty;

/* n: data length (FMT: number of symbols, PBKDF2: password length, botp: digits), m: second length
 * (DWP/CHE: public data, KRP: m, PBKDF2: iterations, brngHMAC: iv length), len: key length */
static void vp_body(struct vp_in* pin, int which, size_t n, size_t m, size_t len)
{
#define in (*pin)
	octet dest[MAXN + 16];
	octet out2[32];
	err_t ret = ERR_OK; int verr = 0;   /* verr: the documented verification error of this function */
	size_t i;
	VP_ASSUME(n <= MAXN && m <= 32 && len <= 40);
	switch (which)
	{
	case ECB_E: ret = beltECBEncr(dest, in.src, n, in.key, len); break;
	case ECB_D: ret = beltECBDecr(dest, in.src, n, in.key, len); break;
	case CBC_E: ret = beltCBCEncr(dest, in.src, n, in.key, len, in.iv); break;
	case CBC_D: ret = beltCBCDecr(dest, in.src, n, in.key, len, in.iv); break;
	case CFB_E: ret = beltCFBEncr(dest, in.src, n, in.key, len, in.iv); break;
	case CFB_D: ret = beltCFBDecr(dest, in.src, n, in.key, len, in.iv); break;
	case CTR: ret = beltCTR(dest, in.src, n, in.key, len, in.iv); break;
	case MAC: ret = beltMAC(out2, in.src, n, in.key, len); break;
	case DWP_W: ret = beltDWPWrap(dest, out2, in.src, n, in.src2, m, in.key, len, in.iv); break;
	case DWP_U: ret = beltDWPUnwrap(dest, in.src, n, in.src2, m, in.mac, in.key, len, in.iv); verr = ERR_BAD_MAC; break;
	case CHE_W: ret = beltCHEWrap(dest, out2, in.src, n, in.src2, m, in.key, len, in.iv); break;
	case CHE_U: ret = beltCHEUnwrap(dest, in.src, n, in.src2, m, in.mac, in.key, len, in.iv); verr = ERR_BAD_MAC; break;
	case KWP_W: ret = beltKWPWrap(dest, in.src, n, in.hdr, in.key, len); break;
	case KWP_U: ret = beltKWPUnwrap(dest, in.src, n, in.hdr, in.key, len); verr = ERR_BAD_KEYTOKEN; break;
	case HASH: ret = beltHash(out2, in.src, n); break;
	case BDE_E: ret = beltBDEEncr(dest, in.src, n, in.key, len, in.iv); break;
	case BDE_D: ret = beltBDEDecr(dest, in.src, n, in.key, len, in.iv); break;
	case SDE_E: ret = beltSDEEncr(dest, in.src, n, in.key, len, in.iv); break;
	case SDE_D: ret = beltSDEDecr(dest, in.src, n, in.key, len, in.iv); break;
	/* mod = 65536: the conversion between strings and numbers is division-free */
	case FMT_E: ret = beltFMTEncr((u16*)dest, 65536, (const u16*)in.src, n, in.key, len, in.iv); break;
	case FMT_D: ret = beltFMTDecr((u16*)dest, 65536, (const u16*)in.src, n, in.key, len, in.iv); break;
	case KRP: ret = beltKRP(out2, m, in.key, len, in.level, in.hdr); break;
	case HMAC: ret = beltHMAC(out2, in.src, n, in.key, len); break;
	case PBKDF2: ret = beltPBKDF2(out2, in.key, len, m, in.src, n); break;
	case BRNG_CTR: memcpy(out2, in.iv, 32); memset(dest, 0, sizeof(dest)); ret = brngCTRRand(dest, n, in.key, out2); break;
	case BRNG_HMAC: ret = brngHMACRand(dest, n, in.key, len, in.iv, m); break;
	case BASH: ret = bashHash(dest, m * 8, in.src, n); break;   /* m * 8 = level l */
	case HOTP_R: ret = botpHOTPRand((char*)out2, n, in.key, len, in.ctr); break;
	case TOTP_R: VP_ASSUME((tm_time_t)in.t != TIME_ERR); ret = botpTOTPRand((char*)out2, n, in.key, len, (tm_time_t)in.t); break;
	case HOTP_V: case TOTP_V:
		/* the candidate password is public and concrete (its length must be: strLen drives the loops);
		   the comparison outcome stays symbolic through the uninterpreted cipher */
		{
			static const char digits[10] = "123456789";
			const char* otp = digits + (9 - n);
			verr = ERR_BAD_PWD;
			if (which == HOTP_V) ret = botpHOTPVerify(otp, in.key, len, in.ctr);
			else { VP_ASSUME((tm_time_t)in.t != TIME_ERR); ret = botpTOTPVerify(otp, in.key, len, (tm_time_t)in.t); }
		}
		break;
	default: VP_ASSUME(0);
	}
	VP_WITNESS();
	VP_ASSERT(ret == ERR_OK || (verr && ret == (err_t)verr), "valid arguments: ERR_OK or the documented verification error");
	VP_ASSERT(vp_allocs >= 1, "the function obtained a heap block for its state");
	VP_ASSERT(vp_frees == vp_allocs, "every heap block obtained was handed back");
	VP_ASSERT(!vp_free_notbase, "memFree gets the start of a heap block");
	VP_ASSERT(!vp_free_uncovered, "the whole heap block was covered by a memWipe before memFree");
	VP_ASSERT(!vp_free_dirty, "no octet of the heap block was written between its wipe and memFree");
#undef in
}
