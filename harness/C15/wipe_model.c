/* wipe_model.c (CBMC; a native twin below is used when a counterexample is replayed) - C15 ghost model of memWipe / memFree / memAlloc (bodies removed from
 * src/core/mem.c):
 *   memWipe(buf, count): fills [buf, buf + count) with 0xA5 and records (object, lo, hi) in a ghost table;
 *   memFree(p): p must be the start of a heap object; the WHOLE object [0, OBJECT_SIZE(p)) must be
 *               covered by one recorded wipe AND every octet must still equal 0xA5 (the octet index is
 *               an arbitrary value, so this is "for all octets"; anything stored after the wipe is
 *               symbolic and can differ from 0xA5); then free(p);
 *   memAlloc(n): malloc(n), counted.
 * Violations are recorded in flags that the harness asserts after its reachability witness (an
 * assertion here would cut the path for the later properties). */
#ifdef VP_CBMC
#include <stdlib.h>
#include <string.h>
#include <bee2/core/mem.h>
#define VP_NW 8
unsigned vp_allocs = 0, vp_frees = 0, vp_wipes = 0;
unsigned vp_free_notbase = 0;    /* memFree(p): p is not the start of an object */
unsigned vp_free_uncovered = 0;  /* memFree(p): no recorded wipe covers the whole object */
unsigned vp_free_dirty = 0;      /* memFree(p): an octet of the object differs from the wipe pattern */
static struct { const void* p; size_t lo, hi; } vp_wt[VP_NW];
size_t nondet_size_t(void);

void* memAlloc(size_t count)
{
	void* p = malloc(count);
	if (p) ++vp_allocs;
	return p;
}

void memWipe(void* buf, size_t count)
{
	if (count == 0) return;
#ifdef VP_MUT_SHORTWIPE   /* self-test of the monitor only: never defined by props/C15.py */
	memset(buf, 0xA5, count - 1);
#else
	memset(buf, 0xA5, count);
#endif
	if (vp_wipes < VP_NW)
	{
		vp_wt[vp_wipes].p = buf;
		vp_wt[vp_wipes].lo = (size_t)__CPROVER_POINTER_OFFSET(buf);
		vp_wt[vp_wipes].hi = vp_wt[vp_wipes].lo + count;
	}
	++vp_wipes;
}

void memFree(void* p)
{
	size_t size, i, k; int covered = 0;
	if (p == 0) return;
	if (__CPROVER_POINTER_OFFSET(p) != 0) vp_free_notbase = 1;
	size = __CPROVER_OBJECT_SIZE(p);
	for (k = 0; k < VP_NW; ++k)
		if (k < vp_wipes && __CPROVER_POINTER_OBJECT(vp_wt[k].p) == __CPROVER_POINTER_OBJECT(p) &&
			vp_wt[k].lo == 0 && vp_wt[k].hi >= size)
			covered = 1;
	if (!covered) vp_free_uncovered = 1;
	i = nondet_size_t();
	if (i < size && ((const unsigned char*)p)[i] != 0xA5) vp_free_dirty = 1;
	++vp_frees;
	free(p);
}

#else   /* ---- native twin for replay: same monitor, object sizes from its own allocation table ---- */
#include <stdlib.h>
#include <string.h>
#include <bee2/core/mem.h>
#define VP_NW 64
unsigned vp_allocs = 0, vp_frees = 0, vp_wipes = 0;
unsigned vp_free_notbase = 0, vp_free_uncovered = 0, vp_free_dirty = 0;
static struct { const unsigned char* p; size_t n; } vp_at[VP_NW], vp_wt[VP_NW];
static unsigned vp_na;
void* memAlloc(size_t count)
{
	void* p = malloc(count);
	if (p) { if (vp_na < VP_NW) { vp_at[vp_na].p = p; vp_at[vp_na].n = count; ++vp_na; } ++vp_allocs; }
	return p;
}
void memWipe(void* buf, size_t count)
{
	if (count == 0) return;
	memset(buf, 0xA5, count);
	if (vp_wipes < VP_NW) { vp_wt[vp_wipes].p = buf; vp_wt[vp_wipes].n = count; }
	++vp_wipes;
}
void memFree(void* p)
{
	size_t size = 0, i; unsigned k; int found = 0, covered = 0;
	if (p == 0) return;
	for (k = 0; k < vp_na; ++k) if (vp_at[k].p == (const unsigned char*)p) { size = vp_at[k].n; found = 1; }
	if (!found) { vp_free_notbase = 1; ++vp_frees; return; }
	for (k = 0; k < VP_NW && k < vp_wipes; ++k)
		if (vp_wt[k].p <= (const unsigned char*)p && vp_wt[k].p + vp_wt[k].n >= (const unsigned char*)p + size) covered = 1;
	if (!covered) vp_free_uncovered = 1;
	for (i = 0; i < size; ++i) if (((const unsigned char*)p)[i] != 0xA5) vp_free_dirty = 1;
	++vp_frees;
	free(p);
}
#endif
