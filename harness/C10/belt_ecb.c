/* ECB: belt.h allows several calls with whole blocks, a ragged tail (CTS) only in the last call, every call >= 16 octets */
#include <bee2/crypto/belt.h>
#define KEEP() beltECB_keep()
#define START(st) beltECBStart(st, in.key, in.key_len)
#ifdef DECR
#define STEP(buf, len, st) beltECBStepD(buf, len, st)
#else
#define STEP(buf, len, st) beltECBStepE(buf, len, st)
#endif
#define SKIP_EMPTY 1
#define OKLEN(n, a, b) ((a) % 16 == 0 && (b) % 16 == 0 && (n) - (a) - (b) >= 16)
#include "stream_tmpl.h"
