#include <bee2/crypto/belt.h>
#define KEEP() beltCFB_keep()
#define START(st) beltCFBStart(st, in.key, in.key_len, in.iv)
#ifdef DECR
#define STEP(buf, len, st) beltCFBStepD(buf, len, st)
#else
#define STEP(buf, len, st) beltCFBStepE(buf, len, st)
#endif
#include "stream_tmpl.h"
