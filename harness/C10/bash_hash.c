#include <bee2/crypto/bash.h>
#ifndef LEVEL
#define LEVEL 128
#endif
#define OUTLEN (LEVEL / 4)
#define COPYABLE 0   /* bash.h does not declare the state copyable */
#define KEEP() bashHash_keep()
#define START(st) bashHashStart(st, LEVEL)
#define ABSORB(buf, len, st) bashHashStepH(buf, len, st)
#define GET(out, st) bashHashStepG(out, OUTLEN, st)
#include "absorb_tmpl.h"
