#include <bee2/crypto/brng.h>
#define KEEP() brngHMAC_keep()
#define START(st) brngHMACStart(st, in.key, 32, in.iv, in.iv_len)
#define STEP(buf, len, st) brngHMACStepR(buf, len, st)
#include "gen_tmpl.h"
