/* DWP / CHE: open data in two fragments, critical data in two fragments, Get (StepG) at the boundaries or not:
 *   Start; I(h[0..a)); [G]; I(h[a..nh)); E(d[0..b)); A(d[0..b)); [G]; E(d[b..nd)); A(d[b..nd)); G
 *     ==  Start; I(h); E(d); A(d); G        (ciphertext and mac equal) */
#include "vp.h"
#include <bee2/crypto/belt.h>
#ifdef USE_CHE
#define X(f) beltCHE##f
#else
#define X(f) beltDWP##f
#endif
#ifndef MAXN
#define MAXN 34
#endif
struct vp_in { octet h[MAXN]; octet d[MAXN]; octet key[32]; octet iv[16]; octet junk; size_t nh, nd, a, b; unsigned char g1, g2; };
static void* vp_relocate(void* st, size_t keep, octet junk)
{
	unsigned long long* nw = (unsigned long long*)malloc(keep); size_t i;
	VP_MALLOC_OK(nw);
	for (i = 0; i < keep / 8; ++i) nw[i] = ((unsigned long long*)st)[i];
	for (i = 0; i < keep / 8; ++i) ((unsigned long long*)st)[i] = 0x0101010101010101ull * junk;
	free(st);
	return nw;
}
static void vp_body(struct vp_in* pin, size_t nh, size_t a, size_t nd, size_t b, unsigned g1, unsigned g2)
{
#define in (*pin)
	octet h[MAXN], d1[MAXN], d2[MAXN], m1[8], m2[8], tmp[8]; void* st; void* st2; size_t keep = X(_keep)();
	VP_ASSUME(nh <= MAXN && nd <= MAXN && a <= nh && b <= nd);
	memcpy(h, in.h, MAXN); memcpy(d1, in.d, MAXN); memcpy(d2, in.d, MAXN);
	st = malloc(keep); VP_MALLOC_OK(st);
	X(Start)(st, in.key, 32, in.iv);
	X(StepI)(h, a, st);
	if (g1) X(StepG)(tmp, st);
	st = vp_relocate(st, keep, in.junk);
	X(StepI)(h + a, nh - a, st);
	X(StepE)(d1, b, st); X(StepA)(d1, b, st);
	if (g2) X(StepG)(tmp, st);
	st = vp_relocate(st, keep, in.junk);
	X(StepE)(d1 + b, nd - b, st); X(StepA)(d1 + b, nd - b, st);
	X(StepG)(m1, st);
	st2 = malloc(keep); VP_MALLOC_OK(st2);
	X(Start)(st2, in.key, 32, in.iv);
	X(StepI)(h, nh, st2);
	X(StepE)(d2, nd, st2); X(StepA)(d2, nd, st2);
	X(StepG)(m2, st2);
	VP_WITNESS();
	VP_ASSERT(vp_eq(d1, d2, MAXN), "fragment-wise StepE == single StepE");
	VP_ASSERT(vp_eq(m1, m2, 8), "mac of the fragment-wise / get-then-continue / relocated run == one-shot mac");
#undef in
}
void harness(void) { VP_INPUT(); vp_body(&in, in.nh, in.a, in.nd, in.b, in.g1, in.g2); }
