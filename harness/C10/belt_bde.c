/* BDE: whole blocks only */
#include <bee2/crypto/belt.h>
#define KEEP() beltBDE_keep()
#define START(st) beltBDEStart(st, in.key, in.key_len, in.iv)
#ifdef DECR
#define STEP(buf, len, st) beltBDEStepD(buf, len, st)
#else
#define STEP(buf, len, st) beltBDEStepE(buf, len, st)
#endif
#define SKIP_EMPTY 1
#define OKLEN(n, a, b) ((a) % 16 == 0 && (b) % 16 == 0 && (n) % 16 == 0 && (n) - (a) - (b) >= 16)
#include "stream_tmpl.h"
