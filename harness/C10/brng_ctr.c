#include <bee2/crypto/brng.h>
#define KEEP() brngCTR_keep()
#define START(st) brngCTRStart(st, in.key, in.iv)
#define STEP(buf, len, st) brngCTRStepR(buf, len, st)
#include "gen_tmpl.h"
