#include <bee2/crypto/belt.h>
#define KEEP() beltCTR_keep()
#define START(st) beltCTRStart(st, in.key, in.key_len, in.iv)
#define STEP(buf, len, st) beltCTRStepE(buf, len, st)
#include "stream_tmpl.h"
