/* C10 template for absorbing bundles (MAC / hash / HMAC / bash-hash ...):
 *   chunked(Start; A(m[0..a)); [Get]; [relocate]; A(m[a..a+b)); [Get]; [relocate]; A(rest); Get)
 *     == one-shot(Start; A(m[0..n)); Get)
 * vp_body() takes the lengths n, a, b, the Get flags and the key length as parameters:
 *   - harness(): all of them symbolic (one query; expensive: symbolic-size memory operations);
 *   - generated entry points (vp_check.py gen_instances): CONCRETE lengths, data symbolic - the
 *     driver enumerates the complete set of length tuples inside the stated bound.
 * For bundles documented as copyable the state is moved at both boundaries to a fresh heap
 * object of exactly KEEP() octets while the old object is overwritten and freed (a retained
 * self-pointer then dereferences a dead object). Boundaries may coincide with 0, n or each other.
 * The including file defines: OUTLEN, KEEP(), START(st), ABSORB(buf,len,st), GET(out,st),
 * optionally MAXN, COPYABLE (default 1), EXTRA_IN (extra members of struct vp_in). */
#include "vp.h"
#ifndef MAXN
#define MAXN 34
#endif
#ifndef COPYABLE
#define COPYABLE 1
#endif
#ifndef EXTRA_IN
#define EXTRA_IN
#endif

struct vp_in {
	octet msg[MAXN];
	size_t n, a, b;
	octet key[32];
	size_t key_len;
	unsigned char get1, get2;
	octet junk;
	octet iv[16];
	EXTRA_IN
};

/* word-wise so that CBMC keeps a typed view of the object (a memcpy of the state costs 4x) */
static void* vp_relocate(void* st, size_t keep, octet junk)
{
	unsigned long long* nw = (unsigned long long*)malloc(keep);
	size_t i;
	VP_MALLOC_OK(nw);
	for (i = 0; i < keep / 8; ++i) nw[i] = ((unsigned long long*)st)[i];
	for (i = 8 * (keep / 8); i < keep; ++i) ((octet*)nw)[i] = ((octet*)st)[i];
	for (i = 0; i < keep / 8; ++i) ((unsigned long long*)st)[i] = 0x0101010101010101ull * junk;
	free(st);
	return nw;
}

static void vp_body(struct vp_in* pin, size_t n, size_t a, size_t b, unsigned g1, unsigned g2, size_t key_len)
{
#define in (*pin)
	octet out1[OUTLEN], out2[OUTLEN], tmp[OUTLEN]; octet msg[MAXN];
	void* st; void* st2; size_t keep;
	VP_ASSUME(n <= MAXN && a <= n && b <= n - a);
	VP_ASSUME(key_len == 16 || key_len == 24 || key_len == 32);
	in.key_len = key_len;
	memcpy(msg, in.msg, MAXN);
	keep = KEEP();
	/* chunked run */
	st = malloc(keep); VP_MALLOC_OK(st);
	START(st);
	ABSORB(msg, a, st);
	if (g1) GET(tmp, st);
#if COPYABLE
	st = vp_relocate(st, keep, in.junk);
#endif
	ABSORB(msg + a, b, st);
	if (g2) GET(tmp, st);
#if COPYABLE
	st = vp_relocate(st, keep, in.junk);
#endif
	ABSORB(msg + a + b, n - a - b, st);
	GET(out1, st);
	/* one-shot run */
	st2 = malloc(keep); VP_MALLOC_OK(st2);
	START(st2);
	ABSORB(msg, n, st2);
	GET(out2, st2);
	VP_WITNESS();
	VP_ASSERT(vp_eq(out1, out2, OUTLEN), "chunked/get-then-continue/relocated run == one-shot");
#undef in
}

void harness(void)
{
	VP_INPUT();
	vp_body(&in, in.n, in.a, in.b, in.get1, in.get2, in.key_len);
}
