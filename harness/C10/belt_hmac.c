#include <bee2/crypto/belt.h>
#define OUTLEN 32
#define KEEP() beltHMAC_keep()
#define START(st) beltHMACStart(st, in.key, in.key_len)
#define ABSORB(buf, len, st) beltHMACStepA(buf, len, st)
#define GET(out, st) beltHMACStepG(out, st)
#include "absorb_tmpl.h"
