/* bash programmable automaton: absorb in two fragments, squeeze in two fragments == one Absorb + one Squeeze */
#include "vp.h"
#include <bee2/crypto/bash.h>
#ifndef LEVEL
#define LEVEL 256
#endif
#ifndef CAP
#define CAP 2
#endif
#ifndef MAXN
#define MAXN 130
#endif
#define OUTN 40
struct vp_in { octet msg[MAXN]; octet ann[8]; octet key[32]; size_t n, a, m, b; };
static void vp_body(struct vp_in* pin, size_t n, size_t a, size_t m, size_t b, size_t key_len)
{
#define in (*pin)
	octet msg[MAXN], o1[OUTN], o2[OUTN]; void* st; void* st2; size_t keep = bashPrg_keep();
	VP_ASSUME(n <= MAXN && a <= n && m <= OUTN && b <= m);
	memcpy(msg, in.msg, MAXN); memset(o1, 0, OUTN); memset(o2, 0, OUTN);
	st = malloc(keep); VP_MALLOC_OK(st);
	bashPrgStart(st, LEVEL, CAP, in.ann, 4, in.key, key_len);
	bashPrgAbsorbStart(st); bashPrgAbsorbStep(msg, a, st); bashPrgAbsorbStep(msg + a, n - a, st);
	bashPrgSqueezeStart(st); bashPrgSqueezeStep(o1, b, st); bashPrgSqueezeStep(o1 + b, m - b, st);
	st2 = malloc(keep); VP_MALLOC_OK(st2);
	bashPrgStart(st2, LEVEL, CAP, in.ann, 4, in.key, key_len);
	bashPrgAbsorb(msg, n, st2);
	bashPrgSqueeze(o2, m, st2);
	VP_WITNESS();
	VP_ASSERT(vp_eq(o1, o2, OUTN), "bashPrg: absorb/squeeze in fragments == single commands");
#undef in
}
void harness(void) { VP_INPUT(); vp_body(&in, in.n, in.a, in.m, in.b, 32); }
