#include <bee2/crypto/belt.h>
#define OUTLEN 32
#define KEEP() beltHash_keep()
#define START(st) beltHashStart(st)
#define ABSORB(buf, len, st) beltHashStepH(buf, len, st)
#define GET(out, st) beltHashStepG(out, st)
#include "absorb_tmpl.h"
