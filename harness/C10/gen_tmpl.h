/* C10 template for generators (brng): StepR(b[0..a)); StepR(b[a..a+b)); StepR(rest) == StepR(b[0..n)),
 * output buffers zero-filled beforehand (brng.h defines prior buffer content as additional input of the CTR
 * generator); state relocated at both boundaries (brng.h: the state may be copied as memory).
 * Defines: KEEP(), START(st), STEP(buf,len,st); optional MAXN. */
#include "vp.h"
#ifndef MAXN
#define MAXN 40
#endif
struct vp_in { octet key[32]; octet iv[80]; size_t n, a, b, iv_len; octet junk; };
static void* vp_relocate(void* st, size_t keep, octet junk)
{
	unsigned long long* nw = (unsigned long long*)malloc(keep); size_t i;
	VP_MALLOC_OK(nw);
	for (i = 0; i < keep / 8; ++i) nw[i] = ((unsigned long long*)st)[i];
	for (i = 8 * (keep / 8); i < keep; ++i) ((octet*)nw)[i] = ((octet*)st)[i];
	for (i = 0; i < keep / 8; ++i) ((unsigned long long*)st)[i] = 0x0101010101010101ull * junk;
	free(st);
	return nw;
}
static void vp_body(struct vp_in* pin, size_t n, size_t a, size_t b, size_t iv_len)
{
#define in (*pin)
	octet buf1[MAXN], buf2[MAXN]; void* st; void* st2; size_t keep;
	VP_ASSUME(n <= MAXN && a <= n && b <= n - a && iv_len <= 80);
	in.iv_len = iv_len;
	memset(buf1, 0, MAXN); memset(buf2, 0, MAXN);
	keep = KEEP();
	st = malloc(keep); VP_MALLOC_OK(st);
	START(st);
	STEP(buf1, a, st);
	st = vp_relocate(st, keep, in.junk);
	STEP(buf1 + a, b, st);
	st = vp_relocate(st, keep, in.junk);
	STEP(buf1 + a + b, n - a - b, st);
	st2 = malloc(keep); VP_MALLOC_OK(st2);
	START(st2);
	STEP(buf2, n, st2);
	VP_WITNESS();
#ifndef NOEQ
	VP_ASSERT(vp_eq(buf1, buf2, MAXN), "fragment-wise generation (with state relocation) == single request");
#endif   /* NOEQ: cipher = arbitrary function; only the memory checks matter (a relocated state must not refer to its old location) */
#undef in
}
void harness(void) { VP_INPUT(); vp_body(&in, in.n, in.a, in.b, in.iv_len); }
