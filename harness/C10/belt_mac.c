#include <bee2/crypto/belt.h>
#define OUTLEN 8
#define KEEP() beltMAC_keep()
#define START(st) beltMACStart(st, in.key, in.key_len)
#define ABSORB(buf, len, st) beltMACStepA(buf, len, st)
#define GET(out, st) beltMACStepG(out, st)
#include "absorb_tmpl.h"
