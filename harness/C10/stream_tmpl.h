/* C10 template for in-place stream/block-mode bundles:
 *   Start; STEP(buf[0..a)); STEP(buf[a..a+b)); STEP(rest)   ==   Start; STEP(buf[0..n))
 * (see absorb_tmpl.h for the symbolic / concrete-instance split).
 * Defines expected: KEEP(), START(st), STEP(buf,len,st); optional MAXN, OKLEN(n,a,b) (restriction on
 * admissible fragment lengths from the header), SKIP_EMPTY (no call for an empty fragment), COPYABLE. */
#include "vp.h"
#ifndef MAXN
#define MAXN 50
#endif
#ifndef COPYABLE
#define COPYABLE 1
#endif
#ifndef OKLEN
#define OKLEN(n, a, b) 1
#endif
#ifndef SKIP_EMPTY
#define SKIP_EMPTY 0
#endif
struct vp_in {
	octet msg[MAXN];
	size_t n, a, b;
	octet key[32];
	size_t key_len;
	octet iv[16];
	octet junk;
};

static void* vp_relocate(void* st, size_t keep, octet junk)
{
	unsigned long long* nw = (unsigned long long*)malloc(keep);
	size_t i;
	VP_MALLOC_OK(nw);
	for (i = 0; i < keep / 8; ++i) nw[i] = ((unsigned long long*)st)[i];
	for (i = 8 * (keep / 8); i < keep; ++i) ((octet*)nw)[i] = ((octet*)st)[i];
	for (i = 0; i < keep / 8; ++i) ((unsigned long long*)st)[i] = 0x0101010101010101ull * junk;
	free(st);
	return nw;
}

static void vp_body(struct vp_in* pin, size_t n, size_t a, size_t b, size_t key_len)
{
#define in (*pin)
	octet buf1[MAXN], buf2[MAXN];
	void* st; void* st2; size_t keep, c;
	VP_ASSUME(n <= MAXN && a <= n && b <= n - a);
	VP_ASSUME(OKLEN(n, a, b));
	VP_ASSUME(key_len == 16 || key_len == 24 || key_len == 32);
	in.key_len = key_len;
	memcpy(buf1, in.msg, MAXN); memcpy(buf2, in.msg, MAXN);
	keep = KEEP();
	st = malloc(keep); VP_MALLOC_OK(st);
	START(st);
	if (!SKIP_EMPTY || a) STEP(buf1, a, st);
#if COPYABLE
	st = vp_relocate(st, keep, in.junk);
#endif
	if (!SKIP_EMPTY || b) STEP(buf1 + a, b, st);
#if COPYABLE
	st = vp_relocate(st, keep, in.junk);
#endif
	c = n - a - b;
	if (!SKIP_EMPTY || c) STEP(buf1 + a + b, c, st);
	st2 = malloc(keep); VP_MALLOC_OK(st2);
	START(st2);
	STEP(buf2, n, st2);
	VP_WITNESS();
	VP_ASSERT(vp_eq(buf1, buf2, MAXN), "fragment-wise processing == single call");
#undef in
}

void harness(void)
{
	VP_INPUT();
	vp_body(&in, in.n, in.a, in.b, in.key_len);
}
