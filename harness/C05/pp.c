/* C05: binary-polynomial layer (pp) == arithmetic in GF(2)[x], word = 16 bits, operands up to 2 words
 * (32 coefficients) held in u64 bit-vectors by the reference (carry-less shift-and-xor). */
#include "vp.h"
#include <bee2/math/pp.h>
#include <bee2/math/ww.h>

typedef unsigned long long V;
#define BW B_PER_W
#ifndef NN
#define NN 2
#endif
#ifndef MM
#define MM 2
#endif
struct vp_in { word a[4]; word b[4]; };
static V val(const word* x, size_t n) { V v = 0; size_t i; for (i = n; i-- > 0;) v = (v << BW) | x[i]; return v; }
static V clmul(V a, V b) { V r = 0; unsigned i; for (i = 0; i < 32; ++i) if ((b >> i) & 1) r ^= a << i; return r; }   /* a, b < 2^32 */
static int deg(V a) { int d = -1; unsigned i; for (i = 0; i < 64; ++i) if ((a >> i) & 1) d = (int)i; return d; }
static V pmod(V a, V b) { int db = deg(b), i; for (i = 63; i >= 0; --i) if (i >= db && ((a >> i) & 1)) a ^= b << (i - db); return a; }   /* b != 0 */
static V pgcd(V a, V b) { unsigned k; for (k = 0; k < 70; ++k) { V t; if (b == 0) break; t = pmod(a, b); a = b; b = t; } return a; }

void h_mul(void)
{
	VP_INPUT(); word c[8]; V A = val(in.a, NN), B = val(in.b, MM);
	ppMul(c, in.a, NN, in.b, MM, vp_alloc(ppMul_deep(NN, MM)));
	VP_WITNESS();
	VP_ASSERT(val(c, NN + MM) == clmul(A, B), "ppMul == carry-less product");
	ppSqr(c, in.a, NN, vp_alloc(ppSqr_deep(NN)));
	VP_ASSERT(val(c, 2 * NN) == clmul(A, A), "ppSqr == carry-less square");
}

void h_mod(void)
{
	VP_INPUT(); word r[4]; V A = val(in.a, NN), B = val(in.b, MM);
	VP_ASSUME(in.b[MM - 1] != 0 && NN >= MM);
	ppMod(r, in.a, NN, in.b, MM, vp_alloc(ppMod_deep(NN, MM)));
	VP_WITNESS();
	VP_ASSERT(val(r, MM) == pmod(A, B), "ppMod == remainder in GF(2)[x]");
}

void h_gcd(void)
{
	VP_INPUT(); word d[4], d2[4], da[4], db[4]; V A = val(in.a, NN), B = val(in.b, MM), G; size_t k = NN < MM ? NN : MM;
	VP_ASSUME(A != 0 && B != 0);
	ppGCD(d, in.a, NN, in.b, MM, vp_alloc(ppGCD_deep(NN, MM)));
	VP_WITNESS();
	G = val(d, k);
	VP_ASSERT(G != 0 && pmod(A, G) == 0 && pmod(B, G) == 0, "ppGCD result divides both operands");
	ppExGCD(d2, da, db, in.a, NN, in.b, MM, vp_alloc(ppExGCD_deep(NN, MM)));
	VP_ASSERT(val(d2, k) == G, "ppExGCD and ppGCD agree on the gcd");
	VP_ASSERT((clmul(A & 0xFFFFFFFFull, val(da, MM)) ^ clmul(B & 0xFFFFFFFFull, val(db, NN))) == G, "Bezout: a*da + b*db == d (hence every common divisor divides d)");
}
