/* C05: big-integer layer (zz) == exact integer arithmetic.
 * Operands are arrays of the library's `word` (16/32/64 bit by profile); the reference value
 * is computed in unsigned __int128, so the harness requires NMAX * B_PER_W <= 64 for products
 * (W16: NMAX <= 4 for add/sub, <= 3 for mul/red; W32: 2 / 1; W64: 1). */
#include "vp.h"
#include <bee2/math/zz.h>
#include <bee2/math/ww.h>
#include <bee2/core/word.h>

#ifndef NMAX
#define NMAX 2
#endif
/* reference integer type: 64 bits when every value the harness forms fits (a 128-bit multiplier or
 * divider in the reference would dominate the formula), 128 bits otherwise */
#if defined(V64)
typedef unsigned long long V;
#else
typedef unsigned __int128 V;
#endif
#define BW B_PER_W

struct vp_in { word a[2 * NMAX + 2]; word b[NMAX + 2]; word m[NMAX + 2]; word w; size_t n; size_t k; };

static V val(const word* x, size_t n) { V v = 0; size_t i; for (i = n; i-- > 0;) v = (v << BW) | x[i]; return v; }
static V pw(size_t n) { return (V)1 << (BW * n); }   /* B^n, n*BW <= 127 */
#define STACK(sz) vp_alloc(sz)

/* ---- add / sub family ---- */
void h_addsub(void)
{
	VP_INPUT();
	size_t n = in.n; word c[NMAX + 1]; word carry; V A, B_, Bn;
	VP_ASSUME(n <= NMAX);
	A = val(in.a, n); B_ = val(in.b, n); Bn = pw(n);
	VP_WITNESS();
	carry = zzAdd(c, in.a, in.b, n);
	VP_ASSERT(val(c, n) + (V)carry * Bn == A + B_ && carry <= 1, "zzAdd: c + carry*B^n == a + b");
	carry = zzSub(c, in.a, in.b, n);
	VP_ASSERT(A + (V)carry * Bn == val(c, n) + B_ && carry <= 1, "zzSub: a + borrow*B^n == c + b");
	{ word t[NMAX + 1]; wwCopy(t, in.b, n); carry = zzAdd2(t, in.a, n);
	  VP_ASSERT(val(t, n) + (V)carry * Bn == A + B_, "zzAdd2: b += a"); }
	{ word t[NMAX + 1]; wwCopy(t, in.b, n); carry = zzSub2(t, in.a, n);
	  VP_ASSERT(B_ + (V)carry * Bn == val(t, n) + A, "zzSub2: b -= a"); }
	carry = zzAddW(c, in.a, n, in.w);
	VP_ASSERT(val(c, n) + (V)carry * Bn == A + in.w, "zzAddW");
	carry = zzSubW(c, in.a, n, in.w);
	VP_ASSERT(A + (V)carry * Bn == val(c, n) + in.w, "zzSubW");
	{ word t[NMAX + 1]; wwCopy(t, in.a, n); carry = zzAddW2(t, n, in.w); VP_ASSERT(val(t, n) + (V)carry * Bn == A + in.w, "zzAddW2"); }
	{ word t[NMAX + 1]; wwCopy(t, in.a, n); carry = zzSubW2(t, n, in.w); VP_ASSERT(A + (V)carry * Bn == val(t, n) + in.w, "zzSubW2"); }
	zzNeg(c, in.a, n);
	VP_ASSERT((val(c, n) + A) % Bn == 0 && val(c, n) < Bn, "zzNeg: b == -a mod B^n");
	/* aliasing c == a and c == b */
	{ word t[NMAX + 1]; wwCopy(t, in.a, n); carry = zzAdd(t, t, in.b, n); VP_ASSERT(val(t, n) + (V)carry * Bn == A + B_, "zzAdd c==a"); }
	{ word t[NMAX + 1]; wwCopy(t, in.b, n); carry = zzSub(t, in.a, t, n); VP_ASSERT(A + (V)carry * Bn == val(t, n) + B_, "zzSub c==b"); }
	{ word t[NMAX + 1]; wwCopy(t, in.a, n); carry = zzAdd(c, t, t, n); VP_ASSERT(val(c, n) + (V)carry * Bn == 2 * A, "zzAdd a==b"); }
	/* predicates, both editions */
	{ int e = (A + B_ == val(in.m, n));
	  VP_ASSERT((SAFE(zzIsSumEq)(in.m, in.a, in.b, n) != 0) == e, "SAFE zzIsSumEq == (a + b == c)");
	  VP_ASSERT((FAST(zzIsSumEq)(in.m, in.a, in.b, n) != 0) == e, "FAST zzIsSumEq == (a + b == c)");
	  e = (A + in.w == B_);
	  VP_ASSERT((SAFE(zzIsSumWEq)(in.b, in.a, n, in.w) != 0) == e, "SAFE zzIsSumWEq == (a + w == b)");
	  VP_ASSERT((FAST(zzIsSumWEq)(in.b, in.a, n, in.w) != 0) == e, "FAST zzIsSumWEq == (a + w == b)"); }
	/* zzAdd3: lengths n >= k */
	{ size_t k = in.k; word t[NMAX + 1];
	  if (k <= n) { carry = zzAdd3(t, in.a, n, in.b, k); VP_ASSERT(val(t, n) + (V)carry * Bn == A + val(in.b, k), "zzAdd3 n>=m"); }
	}
}

/* ---- modular add/sub family, SAFE and FAST ----
 * The expected value is stated without division (a symbolic 128-bit % stalls every back end):
 * for 0 <= X < 2m,  r == X mod m  <=>  r < m and (X == r or X == r + m). */
#define IS_MOD(r, X, M) ((r) < (M) && ((X) == (r) || (X) == (r) + (M)))
void h_mod(void)
{
	VP_INPUT();
	size_t n = in.n; word c[NMAX + 1], d[NMAX + 1]; V A, B_, M;
	VP_ASSUME(1 <= n && n <= NMAX);
	A = val(in.a, n); B_ = val(in.b, n); M = val(in.m, n);
	VP_ASSUME(M > 1 && A < M && B_ < M);
	VP_WITNESS();
	SAFE(zzAddMod)(c, in.a, in.b, in.m, n); FAST(zzAddMod)(d, in.a, in.b, in.m, n);
	VP_ASSERT(IS_MOD(val(c, n), A + B_, M), "SAFE zzAddMod == (a+b) mod m, fully reduced");
	VP_ASSERT(IS_MOD(val(d, n), A + B_, M), "FAST zzAddMod == (a+b) mod m, fully reduced");
	SAFE(zzSubMod)(c, in.a, in.b, in.m, n); FAST(zzSubMod)(d, in.a, in.b, in.m, n);
	VP_ASSERT(IS_MOD(val(c, n), A + M - B_, M), "SAFE zzSubMod == (a-b) mod m, fully reduced");
	VP_ASSERT(IS_MOD(val(d, n), A + M - B_, M), "FAST zzSubMod == (a-b) mod m, fully reduced");
	SAFE(zzNegMod)(c, in.a, in.m, n); FAST(zzNegMod)(d, in.a, in.m, n);
	VP_ASSERT(IS_MOD(val(c, n), M - A, M), "SAFE zzNegMod == -a mod m, fully reduced");
	VP_ASSERT(IS_MOD(val(d, n), M - A, M), "FAST zzNegMod == -a mod m, fully reduced");
	SAFE(zzDoubleMod)(c, in.a, in.m, n); FAST(zzDoubleMod)(d, in.a, in.m, n);
	VP_ASSERT(IS_MOD(val(c, n), 2 * A, M), "SAFE zzDoubleMod == 2a mod m, fully reduced");
	VP_ASSERT(IS_MOD(val(d, n), 2 * A, M), "FAST zzDoubleMod == 2a mod m, fully reduced");
	if ((V)in.w < M)
	{
		SAFE(zzAddWMod)(c, in.a, in.w, in.m, n); FAST(zzAddWMod)(d, in.a, in.w, in.m, n);
		VP_ASSERT(IS_MOD(val(c, n), A + in.w, M), "SAFE zzAddWMod == (a+w) mod m, fully reduced");
		VP_ASSERT(IS_MOD(val(d, n), A + in.w, M), "FAST zzAddWMod == (a+w) mod m, fully reduced");
		SAFE(zzSubWMod)(c, in.a, in.w, in.m, n); FAST(zzSubWMod)(d, in.a, in.w, in.m, n);
		VP_ASSERT(IS_MOD(val(c, n), A + M - in.w, M), "SAFE zzSubWMod == (a-w) mod m, fully reduced");
		VP_ASSERT(IS_MOD(val(d, n), A + M - in.w, M), "FAST zzSubWMod == (a-w) mod m, fully reduced");
	}
	if ((in.m[0] & 1) && in.m[n - 1] != 0)
	{
		SAFE(zzHalfMod)(c, in.a, in.m, n); FAST(zzHalfMod)(d, in.a, in.m, n);
		VP_ASSERT(val(c, n) < M && (2 * val(c, n) == A || 2 * val(c, n) == A + M), "SAFE zzHalfMod: 2b == a mod m, b < m");
		VP_ASSERT(val(d, n) < M && (2 * val(d, n) == A || 2 * val(d, n) == A + M), "FAST zzHalfMod: 2b == a mod m, b < m");
	}
	/* aliasing c == a, c == b */
	{ word t[NMAX + 1]; wwCopy(t, in.a, n); SAFE(zzAddMod)(t, t, in.b, in.m, n); VP_ASSERT(IS_MOD(val(t, n), A + B_, M), "SAFE zzAddMod c==a"); }
	{ word t[NMAX + 1]; wwCopy(t, in.b, n); SAFE(zzSubMod)(t, in.a, t, in.m, n); VP_ASSERT(IS_MOD(val(t, n), A + M - B_, M), "SAFE zzSubMod c==b"); }
}

/* ---- multiplication by a word, products, division ----
 * all specifications are division-free: a quotient/remainder pair is checked through q*w + r == a */
void h_mulw(void)
{
	VP_INPUT();
	size_t n = in.n; word c[NMAX + 1]; word carry; V A, B_, Bn;
	VP_ASSUME(n <= NMAX);
#ifdef FIX_N
	n = FIX_N;
#endif
	A = val(in.a, n); B_ = val(in.b, n); Bn = pw(n);
	VP_WITNESS();
	carry = zzMulW(c, in.a, n, in.w);
	VP_ASSERT(val(c, n) + (V)carry * Bn == A * in.w, "zzMulW: b + carry*B^n == a*w");
	wwCopy(c, in.b, n); carry = zzAddMulW(c, in.a, n, in.w);
	VP_ASSERT(val(c, n) + (V)carry * Bn == B_ + A * in.w, "zzAddMulW: b + carry*B^n == b0 + a*w");
	wwCopy(c, in.b, n); carry = zzSubMulW(c, in.a, n, in.w);
	VP_ASSERT(B_ + (V)carry * Bn == val(c, n) + A * in.w, "zzSubMulW: b0 + borrow*B^n == b + a*w");
}

void h_divw(void)
{
	VP_INPUT();
	size_t n = in.n; word q[NMAX + 1]; word r; V A;
	VP_ASSUME(n <= NMAX && in.w != 0);
#ifdef FIX_N
	n = FIX_N;
#endif
	A = val(in.a, n);
	r = zzDivW(q, in.a, n, in.w);
	VP_WITNESS();
	VP_ASSERT(r < in.w && val(q, n) * in.w + r == A, "zzDivW: a == q*w + r, r < w");
	VP_ASSERT(zzModW(in.a, n, in.w) == r, "zzModW == remainder of zzDivW");
	if ((V)in.w * in.w <= ((V)1 << BW))
		VP_ASSERT(zzModW2(in.a, n, in.w) == r, "zzModW2 == a mod w (w^2 <= B)");
}

void h_mul(void)
{
	VP_INPUT();
	size_t n = in.n, k = in.k; word c[2 * NMAX + 2]; V A, B_; void* st;
	VP_ASSUME(n <= NMAX && k <= NMAX);
#ifdef FIX_K
	n = FIX_N; k = FIX_K;
#endif
	A = val(in.a, n); B_ = val(in.b, k);
	st = STACK(zzMul_deep(n, k));
	zzMul(c, in.a, n, in.b, k, st);
	VP_WITNESS();
	VP_ASSERT(val(c, n + k) == A * B_, "zzMul: c == a*b");
	st = STACK(zzSqr_deep(n));
	zzSqr(c, in.a, n, st);
	VP_ASSERT(val(c, 2 * n) == A * A, "zzSqr: b == a^2");
}

void h_div(void)
{
	VP_INPUT();
	size_t n = in.n, k = in.k; word q[2 * NMAX + 2], r[NMAX + 1], r2[NMAX + 1]; V A, B_; void* st;
	VP_ASSUME(1 <= k && k <= NMAX && k <= n && n <= 2 * NMAX);
#ifdef FIX_K
	n = FIX_N; k = FIX_K;
#endif
	VP_ASSUME(in.b[k - 1] != 0);
	A = val(in.a, n); B_ = val(in.b, k);
	st = STACK(zzDiv_deep(n, k));
	zzDiv(q, r, in.a, n, in.b, k, st);
	VP_WITNESS();
	VP_ASSERT(val(r, k) < B_ && val(q, n - k + 1) * B_ + val(r, k) == A, "zzDiv: a == q*b + r, r < b");
	st = STACK(zzMod_deep(n, k));
	zzMod(r2, in.a, n, in.b, k, st);
	VP_ASSERT(val(r2, k) == val(r, k), "zzMod == remainder of zzDiv");
}

/* ---- special reductions, SAFE and FAST ----
 * Division-free statement. Every admissible input of a Montgomery reduction has the form
 *     a = y*R - t*m   with 0 <= t < R, 0 <= y < 2m, a >= 0        (t = -a/m mod R, y = (a + t*m)/R)
 * and the value defined by the header is y mod m = (y >= m ? y - m : y). The harness quantifies over
 * (m, t, y) instead of (m, a); plain reductions likewise use a = q*m + r, r < m. */
#ifndef RED_N
#define RED_N 1
#endif
struct vp_red { word m[NMAX]; word t[NMAX]; word y[NMAX + 1]; };
#define in2 (*(struct vp_red*)&in)

static void mont_input(const struct vp_in* pin, size_t n, word a[], V* expect, V* pM)
{
	/* m = in.m, t = in.b (n words), y = in.a (n words + 1 bit) */
	V M = val(pin->m, n), T = val(pin->b, n), Y = val(pin->a, n) + ((V)(pin->w & 1) << (BW * n)), R = pw(n), A;
	size_t i;
	VP_ASSUME((pin->m[0] & 1) && pin->m[n - 1] != 0 && M > 1);
	VP_ASSUME(Y < 2 * M);
	{	/* the products are formed in 128 bits: y can be as large as 2m - 1 >= B^n, so y*R may reach 2^(2nB) and would wrap
		 * in the 64-bit reference type (a false alarm of an earlier version of this harness: y = B^n, t = 0 gave a = 0) */
		unsigned __int128 yr = (unsigned __int128)Y * R, tm = (unsigned __int128)T * M, mr = (unsigned __int128)M * R;
		VP_ASSUME(yr >= tm && yr - tm < mr);     /* header precondition a < mod * R */
		A = (V)(yr - tm);
	}
	for (i = 0; i < 2 * n; ++i) a[i] = (word)(A >> (BW * i));
	*expect = Y >= M ? Y - M : Y;
	*pM = M;
}

void h_redmont(void)
{
	VP_INPUT();
	size_t n = RED_N; word a[2 * NMAX + 2], x[2 * NMAX + 2], y[2 * NMAX + 2]; V E, M; word mp; void* st;
	mont_input(&in, n, a, &E, &M);
	mp = wordNegInv(in.m[0]);
	VP_ASSERT((word)(in.m[0] * mp + 1) == 0, "wordNegInv: m0 * m' == -1 mod B");
	st = STACK(zzRedMont_deep(n));
	wwCopy(x, a, 2 * n); wwCopy(y, a, 2 * n);
	SAFE(zzRedMont)(x, in.m, n, mp, st);
	FAST(zzRedMont)(y, in.m, n, mp, st);
	VP_WITNESS();
	VP_ASSERT(val(y, n) == E, "FAST zzRedMont == a*R^-1 mod m, fully reduced");
	VP_ASSERT(val(x, n) < M, "SAFE zzRedMont result is fully reduced (< mod)");
	VP_ASSERT(val(x, n) == E, "SAFE zzRedMont == a*R^-1 mod m");
}

void h_redcrandmont(void)
{
	VP_INPUT();
	size_t n = RED_N, i; word a[2 * NMAX + 2], x[2 * NMAX + 2], y[2 * NMAX + 2]; V E, M; word mp; void* st;
	VP_ASSUME(n >= 2);
	for (i = 1; i < n; ++i) VP_ASSUME(in.m[i] == WORD_MAX);
	mont_input(&in, n, a, &E, &M);
	mp = wordNegInv(in.m[0]);
	st = STACK(zzRedCrandMont_deep(n));
	wwCopy(x, a, 2 * n); wwCopy(y, a, 2 * n);
	SAFE(zzRedCrandMont)(x, in.m, n, mp, st);
	FAST(zzRedCrandMont)(y, in.m, n, mp, st);
	VP_WITNESS();
	VP_ASSERT(val(y, n) == E, "FAST zzRedCrandMont == a*R^-1 mod m, fully reduced");
	VP_ASSERT(val(x, n) < M, "SAFE zzRedCrandMont result is fully reduced (< mod)");
	VP_ASSERT(val(x, n) == E, "SAFE zzRedCrandMont == a*R^-1 mod m");
}

/* a = q*m + r, r < m, a < B^2n : m = in.m, q = in.a (n+1 words), r = in.b */
static void plain_input(const struct vp_in* pin, size_t n, word a[], V* expect, V* pM)
{
	unsigned __int128 M = val(pin->m, n), Q = val(pin->a, n + 1), Rr = val(pin->b, n), A;
	size_t i;
	VP_ASSUME(Rr < M);
	VP_ASSUME(Q <= (((unsigned __int128)1 << (BW * (n + 1))) - 1));
	A = Q * M + Rr;
	VP_ASSUME(A < ((unsigned __int128)1 << (2 * BW * n)));
	for (i = 0; i < 2 * n; ++i) a[i] = (word)(A >> (BW * i));
	*expect = (V)Rr; *pM = (V)M;
}

void h_redcrand(void)
{
	VP_INPUT();
	size_t n = RED_N, i; word a[2 * NMAX + 2], x[2 * NMAX + 2], y[2 * NMAX + 2]; V E, M; void* st;
	VP_ASSUME(n >= 2);
	for (i = 1; i < n; ++i) VP_ASSUME(in.m[i] == WORD_MAX);
	VP_ASSUME(in.m[0] != 0);
	plain_input(&in, n, a, &E, &M);
	st = STACK(zzRedCrand_deep(n));
	wwCopy(x, a, 2 * n); wwCopy(y, a, 2 * n);
	SAFE(zzRedCrand)(x, in.m, n, st);
	FAST(zzRedCrand)(y, in.m, n, st);
	VP_WITNESS();
	VP_ASSERT(val(y, n) == E, "FAST zzRedCrand == a mod m");
	VP_ASSERT(val(x, n) == E, "SAFE zzRedCrand == a mod m");
}

void h_redbarr(void)
{
	VP_INPUT();
	size_t n = RED_N; word a[2 * NMAX + 2], x[2 * NMAX + 2], y[2 * NMAX + 2], bp[NMAX + 3]; V E, M; void* st;
	VP_ASSUME(in.m[n - 1] != 0);
	plain_input(&in, n, a, &E, &M);
	st = STACK(zzRedBarrStart_deep(n));
	zzRedBarrStart(bp, in.m, n, st);
	{ unsigned __int128 mu = val(bp, n + 2), B2n = (unsigned __int128)1 << (2 * BW * n);
	  VP_ASSERT(mu * M <= B2n && B2n - mu * M < M, "zzRedBarrStart: mu == B^2n div m"); }
	st = STACK(zzRedBarr_deep(n));
	wwCopy(x, a, 2 * n); wwCopy(y, a, 2 * n);
	SAFE(zzRedBarr)(x, in.m, n, bp, st);
	FAST(zzRedBarr)(y, in.m, n, bp, st);
	VP_WITNESS();
	VP_ASSERT(val(y, n) == E, "FAST zzRedBarr == a mod m");
	VP_ASSERT(val(x, n) == E, "SAFE zzRedBarr == a mod m");
	st = STACK(zzRed_deep(n));
	wwCopy(x, a, 2 * n);
	zzRed(x, in.m, n, st);
	VP_ASSERT(val(x, n) == E, "zzRed == a mod m");
}

/* SAFE == FAST and "fully reduced" only (no reference value: cheap), inputs straight from the header's \pre */
void h_redmont_sf(void)
{
	VP_INPUT();
	size_t n = RED_N, i; word x[2 * NMAX + 2], y[2 * NMAX + 2]; V M; word mp; void* st;
	M = val(in.m, n);
	VP_ASSUME((in.m[0] & 1) && in.m[n - 1] != 0 && M > 1);
#ifdef CRAND
	VP_ASSUME(n >= 2);
	for (i = 1; i < n; ++i) VP_ASSUME(in.m[i] == WORD_MAX);
#endif
	VP_ASSUME(val(in.a + n, n) < M);            /* a < mod * B^n  <=>  a div B^n < mod */
	mp = wordNegInv(in.m[0]);
	st = STACK(0);
	wwCopy(x, in.a, 2 * n); wwCopy(y, in.a, 2 * n);
#ifdef CRAND
	SAFE(zzRedCrandMont)(x, in.m, n, mp, st); FAST(zzRedCrandMont)(y, in.m, n, mp, st);
#else
	SAFE(zzRedMont)(x, in.m, n, mp, st); FAST(zzRedMont)(y, in.m, n, mp, st);
#endif
	VP_WITNESS();
	VP_ASSERT(val(x, n) < M, "SAFE Montgomery reduction result is fully reduced (< mod)");
	VP_ASSERT(val(y, n) < M, "FAST Montgomery reduction result is fully reduced (< mod)");
	VP_ASSERT(val(x, n) == val(y, n), "SAFE == FAST Montgomery reduction");
}

void h_redcrand_sf(void)
{
	VP_INPUT();
	size_t n = RED_N, i; word x[2 * NMAX + 2], y[2 * NMAX + 2]; V M; void* st;
	VP_ASSUME(n >= 2 && in.m[0] != 0);
	for (i = 1; i < n; ++i) VP_ASSUME(in.m[i] == WORD_MAX);
	M = val(in.m, n);
	st = STACK(0);
	wwCopy(x, in.a, 2 * n); wwCopy(y, in.a, 2 * n);
	SAFE(zzRedCrand)(x, in.m, n, st); FAST(zzRedCrand)(y, in.m, n, st);
	VP_WITNESS();
	VP_ASSERT(val(x, n) < M && val(y, n) < M, "zzRedCrand results fully reduced");
	VP_ASSERT(val(x, n) == val(y, n), "SAFE == FAST zzRedCrand");
}

/* zzMod against zzDiv (two code paths for the same remainder; no arithmetic reference needed, so wider
 * operands are affordable): catches a defect in either routine's quotient-correction step */
#ifdef FIX_K
void h_divmod_eq(void)
{
	VP_INPUT();
	size_t n = FIX_N, k = FIX_K; word q[2 * NMAX + 2], r[NMAX + 1], r2[NMAX + 1]; void* st;
	VP_ASSUME(in.b[k - 1] != 0);
	st = STACK(zzDiv_deep(n, k));
	zzDiv(q, r, in.a, n, in.b, k, st);
	st = STACK(zzMod_deep(n, k));
	zzMod(r2, in.a, n, in.b, k, st);
	VP_WITNESS();
	VP_ASSERT(wwCmp(r, in.b, k) < 0, "zzDiv remainder < divisor");
	VP_ASSERT(wwEq(r, r2, k), "zzMod == remainder of zzDiv");
}
#endif
