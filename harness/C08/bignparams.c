/* C08: bignParamsDec on structure-aware mutants. The encoding of a standard parameter set is produced by the
 * real encoder (concrete), then everything from the length field of the modulus INTEGER (the first
 * variable-length field the decoder copies out) to the end of the input is replaced by SYMBOLIC octets and
 * the total input length is symbolic: "probe length, then copy" must keep every write inside *params
 * (a heap object of exactly sizeof(bign_params)) and every read inside the input. */
#include "vp.h"
#include <bee2/core/der.h>
#include <bee2/core/err.h>
#include <bee2/crypto/bign.h>

#ifndef NB
#define NB 420
#endif
#ifndef CURVE
#define CURVE "1.2.112.0.2.0.34.101.45.3.1"
#endif
struct vp_in { octet tail[NB]; size_t n; };

void h_params_dec(void)
{
	VP_INPUT();
	static bign_params std[1]; static octet enc[NB]; size_t len = sizeof enc, off, k; u32 tag; size_t l;
	octet* der; bign_params* out; err_t e; size_t i;
	VP_ASSUME(bignParamsStd(std, CURVE) == ERR_OK);
	VP_ASSUME(bignParamsEnc(enc, &len, std) == ERR_OK);
	/* walk to the modulus: SEQ{ version, SEQ{ OID, INTEGER p ... */
	off = derTLDec(&tag, &l, enc, len);                      /* ParamSeq TL */
	k = derDec(&tag, 0, &l, enc + off, len - off); off += k;  /* version */
	off += derTLDec(&tag, &l, enc + off, len - off);         /* FieldSeq TL */
	k = derDec(&tag, 0, &l, enc + off, len - off); off += k;  /* OID */
	VP_ASSUME(off < len && enc[off] == 0x02);                /* INTEGER tag of p */
	VP_ASSUME(off + 4 < NB);
	/* total input length fixed to NB (concrete); the INTEGER gets a two-octet length field with SYMBOLIC value and
	 * symbolic contents: the copy length inside the decoder is the only symbolic size */
	der = (octet*)vp_alloc(NB);
	memcpy(der, in.tail, NB);
	memcpy(der, enc, off + 1);
	der[off + 1] = 0x82;
	out = (bign_params*)vp_alloc(sizeof(bign_params));
	e = bignParamsDec(out, der, NB);
	VP_WITNESS();
	VP_ASSERT(e == ERR_OK || e == ERR_BAD_FORMAT, "bignParamsDec returns OK or ERR_BAD_FORMAT");
}
