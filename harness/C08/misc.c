/* C08: APDU, base64, hex, OID, decimal codecs: total, bounded, canonical, mutually inverse */
#include "vp.h"
#include <bee2/core/apdu.h>
#include <bee2/core/b64.h>
#include <bee2/core/hex.h>
#include <bee2/core/oid.h>
#include <bee2/core/dec.h>
#include <bee2/core/str.h>

#ifndef N
#define N 12
#endif
struct vp_in { octet buf[N]; size_t n; char s[N + 1]; size_t slen; octet cla, ins, p1, p2; size_t cdf_len, rdf_len; octet cdf[4]; unsigned int u; };

/* a C string of exactly slen characters, NUL-terminated, in an end-aligned heap object (reading past the NUL is out of object) */
static char* mkstr(const struct vp_in* in)
{
	char* s; size_t i;
	VP_ASSUME(in->slen <= N);
	for (i = 0; i < N; ++i) if (i < in->slen) VP_ASSUME(in->s[i] != 0);
	s = (char*)vp_alloc_end(in->slen + 1, N + 1);
	for (i = 0; i < in->slen; ++i) s[i] = in->s[i];
	s[in->slen] = 0;
	return s;
}

/* ---- APDU command: decode any octet string; accepted => re-encoding gives the same octets ---- */
void h_apdu_cmd_dec(void)
{
	VP_INPUT();
	octet* apdu; size_t sz, sz2, k; apdu_cmd_t* cmd; octet out[N + 8];
	VP_ASSUME(in.n <= N);
	apdu = (octet*)vp_dup_end(in.buf, in.n, N);
	sz = apduCmdDec(0, apdu, in.n);
	VP_WITNESS();
	if (sz != SIZE_MAX)
	{
		VP_ASSERT(sz >= sizeof(apdu_cmd_t) && sz - sizeof(apdu_cmd_t) <= in.n, "apduCmdDec: reported size bounded by the input");
		cmd = (apdu_cmd_t*)vp_alloc_end(sz, sizeof(apdu_cmd_t) + N);
		sz2 = apduCmdDec(cmd, apdu, in.n);
		VP_ASSERT(sz2 == sz && cmd->cdf_len == sz - sizeof(apdu_cmd_t), "apduCmdDec stable");
		VP_ASSERT(apduCmdIsValid(cmd), "decoded command is valid");
		/* apdu.h allows short OR extended length forms (not a canonical format): the re-encoding may be
		 * shorter than the accepted string but must decode to the same command */
		k = apduCmdEnc(0, cmd);
		VP_ASSERT(k <= in.n, "apduCmdEnc of a decoded command is not longer than the accepted string");
		k = apduCmdEnc(out, cmd);
		{ union { apdu_cmd_t c; octet raw[sizeof(apdu_cmd_t) + N]; } v;
		  VP_ASSERT(apduCmdDec(&v.c, out, k) == sz, "re-encoded command decodes");
		  VP_ASSERT(v.c.cla == cmd->cla && v.c.ins == cmd->ins && v.c.p1 == cmd->p1 && v.c.p2 == cmd->p2 && v.c.cdf_len == cmd->cdf_len &&
			v.c.rdf_len == cmd->rdf_len && vp_eq(v.c.cdf, cmd->cdf, cmd->cdf_len), "decode(encode(decode(x))) == decode(x)"); }
	}
}

/* ---- APDU command: encode any valid command (data <= 4 octets, every Le) and decode it back ---- */
void h_apdu_cmd_enc(void)
{
	VP_INPUT();
	union { apdu_cmd_t c; octet raw[sizeof(apdu_cmd_t) + 4]; } u, v; octet out[4 + 3 + 4 + 3]; size_t k, sz; octet* o;
	VP_ASSUME(in.cdf_len <= 4 && in.rdf_len <= 65536);
	u.c.cla = in.cla; u.c.ins = in.ins; u.c.p1 = in.p1; u.c.p2 = in.p2; u.c.cdf_len = in.cdf_len; u.c.rdf_len = in.rdf_len;
	memcpy(u.c.cdf, in.cdf, 4);
	k = apduCmdEnc(0, &u.c);
	VP_WITNESS();
	VP_ASSERT(k <= sizeof out, "apduCmdEnc length");
	o = (octet*)vp_alloc_end(k, sizeof out);
	VP_ASSERT(apduCmdEnc(o, &u.c) == k, "apduCmdEnc stable");
	sz = apduCmdDec(&v.c, o, k);
	VP_ASSERT(sz == sizeof(apdu_cmd_t) + in.cdf_len, "apduCmdDec accepts apduCmdEnc output");
	VP_ASSERT(v.c.cla == in.cla && v.c.ins == in.ins && v.c.p1 == in.p1 && v.c.p2 == in.p2 && v.c.cdf_len == in.cdf_len && v.c.rdf_len == in.rdf_len &&
		vp_eq(v.c.cdf, in.cdf, in.cdf_len), "apduCmdDec inverts apduCmdEnc (all Lc/Le forms)");
}

void h_apdu_resp(void)
{
	VP_INPUT();
	octet* apdu; size_t sz; apdu_resp_t* r; octet out[N + 2];
	VP_ASSUME(in.n <= N);
	apdu = (octet*)vp_dup_end(in.buf, in.n, N);
	sz = apduRespDec(0, apdu, in.n);
	VP_WITNESS();
	VP_ASSERT((sz != SIZE_MAX) == (in.n >= 2), "apduRespDec accepts exactly the strings with a status word");
	if (sz != SIZE_MAX)
	{
		r = (apdu_resp_t*)vp_alloc_end(sz, sizeof(apdu_resp_t) + N);
		VP_ASSERT(apduRespDec(r, apdu, in.n) == sz && r->rdf_len == in.n - 2 && apduRespIsValid(r), "apduRespDec stable");
		VP_ASSERT(apduRespEnc(out, r) == in.n && vp_eq(out, apdu, in.n), "re-encoding a decoded APDU response gives the accepted octets");
	}
}

/* ---- base64 ---- */
static int b64val(char c)
{
	if (c >= 'A' && c <= 'Z') return c - 'A';
	if (c >= 'a' && c <= 'z') return c - 'a' + 26;
	if (c >= '0' && c <= '9') return c - '0' + 52;
	if (c == '+') return 62;
	if (c == '/') return 63;
	return -1;
}
static int model_b64_valid(const char* s, size_t len)
{
	size_t i, body = len;
	if (len % 4) return 0;
	if (len && s[len - 1] == '=') { body = len - 1; if (s[len - 2] == '=') body = len - 2; }
	for (i = 0; i < body; ++i) if (b64val(s[i]) < 0) return 0;
	if (len - body == 1 && (b64val(s[body - 1]) & 3)) return 0;    /* canonical: unused bits are zero */
	if (len - body == 2 && (b64val(s[body - 1]) & 15)) return 0;
	return 1;
}
void h_b64_dec(void)
{
	VP_INPUT();
	char* s = mkstr(&in); int v; octet* d; size_t cnt; char back[N + 1 + 4];
	v = b64IsValid(s) != 0;
	VP_WITNESS();
	VP_ASSERT(v == model_b64_valid(in.s, in.slen), "b64IsValid accepts exactly the canonical base64 strings");
	if (v)
	{
		cnt = 0; b64To(0, &cnt, s);
		VP_ASSERT(cnt <= in.slen / 4 * 3 && (cnt + 2) / 3 * 4 == in.slen, "b64To length");
		d = (octet*)vp_alloc_end(cnt, N);
		b64To(d, &cnt, s);
		b64From(back, d, cnt);
		VP_ASSERT(vp_eq(back, s, in.slen + 1), "re-encoding a decoded base64 string gives the accepted characters");
	}
}
void h_b64_enc(void)
{
	VP_INPUT();
	octet* d; char* e; octet* b; size_t cnt = 0, el;
	VP_ASSUME(in.n <= 9);
	d = (octet*)vp_dup_end(in.buf, in.n, N);
	el = 4 * ((in.n + 2) / 3);
	e = (char*)vp_alloc_end(el + 1, 13);
	b64From(e, d, in.n);
	VP_WITNESS();
	VP_ASSERT(e[el] == 0 && b64IsValid(e), "b64From produces a valid string of the documented length");
	b64To(0, &cnt, e);
	VP_ASSERT(cnt == in.n, "b64To length of b64From output");
	b = (octet*)vp_alloc_end(cnt, N);
	b64To(b, &cnt, e);
	VP_ASSERT(cnt == in.n && vp_eq(b, d, in.n), "b64To inverts b64From");
}

/* ---- hex ---- */
static int hexval(char c) { if (c >= '0' && c <= '9') return c - '0'; if (c >= 'A' && c <= 'F') return c - 'A' + 10; if (c >= 'a' && c <= 'f') return c - 'a' + 10; return -1; }
void h_hex(void)
{
	VP_INPUT();
	char* s = mkstr(&in); size_t i; int ok = (in.slen % 2 == 0), v; octet* d; char back[N + 1];
	for (i = 0; i < N; ++i) if (i < in.slen && hexval(in.s[i]) < 0) ok = 0;
	v = hexIsValid(s) != 0;
	VP_WITNESS();
	VP_ASSERT(v == ok, "hexIsValid accepts exactly the even-length strings of hex digits");
	if (v)
	{
		d = (octet*)vp_alloc_end(in.slen / 2, N);
		hexTo(d, s);
		for (i = 0; i < N / 2; ++i) if (i < in.slen / 2) VP_ASSERT(d[i] == 16 * hexval(in.s[2 * i]) + hexval(in.s[2 * i + 1]), "hexTo value");
		hexFrom(back, d, in.slen / 2);
		VP_ASSERT(hexIsValid(back) && strLen(back) == in.slen, "hexFrom output valid");
		for (i = 0; i < N; ++i) if (i < in.slen) VP_ASSERT(hexval(back[i]) == hexval(in.s[i]), "hexFrom inverts hexTo (up to letter case)");
		VP_ASSERT((SAFE(hexEq)(d, s) != 0) && (FAST(hexEq)(d, s) != 0), "hexEq of a buffer with its own hex string (both editions)");
	}
}

/* ---- OID: DER contents -> string is total, bounded and canonical ---- */
void h_oid_dec(void)
{
	VP_INPUT();
	octet* der; size_t len, k; char* oid; octet out[N + 8];
	VP_ASSUME(in.n <= N);
	der = (octet*)vp_dup_end(in.buf, in.n, N);
	len = oidFromDER(0, der, in.n);
	VP_WITNESS();
	if (len != SIZE_MAX)
	{
		VP_ASSERT(len <= 4 * N + 2, "oidFromDER: length of the dotted string bounded");
		oid = (char*)vp_alloc_end(len + 1, 4 * N + 3);
		VP_ASSERT(oidFromDER(oid, der, in.n) == len && oid[len] == 0, "oidFromDER stable, terminated");
		VP_ASSERT(oidIsValid(oid), "decoded OID string is valid");
		k = oidToDER(out, oid);
		VP_ASSERT(k == in.n && vp_eq(out, der, in.n), "re-encoding a decoded OID gives the accepted octets");
	}
}

/* ---- decimal strings ---- */
void h_dec(void)
{
	VP_INPUT();
	char* s = mkstr(&in); size_t i; int ok = 1; char buf[11];
	for (i = 0; i < N; ++i) if (i < in.slen && (in.s[i] < '0' || in.s[i] > '9')) ok = 0;
	VP_WITNESS();
	VP_ASSERT((decIsValid(s) != 0) == ok, "decIsValid accepts exactly the digit strings");
	decFromU32(buf, 10, in.u);
	VP_ASSERT(buf[10] == 0 && decIsValid(buf) && decToU32(buf) == in.u, "decToU32 inverts decFromU32 (10 digits, every u32)");
}
