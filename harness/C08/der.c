/* C08: DER primitives of der.c against a reference TLV grammar written from der.h.
 * Input is a heap object of exactly n octets (n symbolic <= N) with symbolic content,
 * so any read past the input is an out-of-object access (CBMC pointer checks). */
#include "vp.h"
#include <bee2/core/der.h>

#ifndef N
#define N 12
#endif

struct vp_in {
	octet buf[N];
	size_t n;
	u32 tag;
	size_t len;
	size_t val;
	octet v[8];
};

/* ---- reference model (der.h, section "Правила кодирования") ------------------- */
typedef struct { int ok; size_t t_count; u32 tag; size_t l_count; size_t len; } tl_t;

static tl_t model_tl(const octet* d, size_t n)
{
	tl_t r; size_t pos, k, i;
	r.ok = 0; r.t_count = 0; r.tag = 0; r.l_count = 0; r.len = 0;
	if (n < 1) return r;
	r.tag = d[0]; r.t_count = 1;
	if ((d[0] & 31) == 31)
	{
		/* long tag: (t_{r-1}|128) ... t_0, t_{r-1} != 0, number >= 31, whole code fits u32 */
		u32 num = 0; int term = 0;
		for (k = 1; k <= 3; ++k)
		{
			if (k >= n) return r;
			if (k == 1 && (d[k] & 127) == 0) return r;
			r.tag = (r.tag << 8) | d[k];
			num = (num << 7) | (d[k] & 127);
			r.t_count = k + 1;
			if ((d[k] & 128) == 0) { term = 1; break; }
		}
		if (!term || num < 31) return r;
	}
	pos = r.t_count;
	if (pos >= n) return r;
	if (d[pos] == 128 || d[pos] == 255) return r;
	if (d[pos] < 128) { r.len = d[pos]; r.l_count = 1; }
	else
	{
		size_t cnt = d[pos] - 128;
		if (cnt > sizeof(size_t)) return r;
		if (pos + 1 + cnt > n) return r;
		if (d[pos + 1] == 0) return r;                 /* minimal number of octets */
		if (cnt == 1 && d[pos + 1] < 128) return r;   /* short form was mandatory */
		for (i = 0; i < cnt; ++i) r.len = (r.len << 8) | d[pos + 1 + i];
		if (r.len == SIZE_MAX) return r;               /* implementation limit: SIZE_MAX is the error value */
		r.l_count = 1 + cnt;
	}
	r.ok = 1;
	return r;
}

static int model_tag_valid(u32 tag)
{
	octet d[4]; size_t k = 0, i; tl_t r; octet tmp[5];
	if (tag < 0x100) return (tag & 31) != 31;
	/* long: must be exactly what model_tl reads back */
	if (tag >> 24) { d[0] = tag >> 24; d[1] = tag >> 16; d[2] = tag >> 8; d[3] = tag; k = 4; }
	else if (tag >> 16) { d[0] = tag >> 16; d[1] = tag >> 8; d[2] = tag; k = 3; }
	else { d[0] = tag >> 8; d[1] = tag; k = 2; }
	for (i = 0; i < k; ++i) tmp[i] = d[i];
	tmp[k] = 0;
	r = model_tl(tmp, k + 1);
	return r.ok && r.t_count == k;
}

/* ---- harnesses -------------------------------------------------------------- */

/* derTLDec == model, all inputs of length <= N */
void h_tldec(void)
{
	VP_INPUT();
	octet* der; u32 tag = 0xFFFFFFFF; size_t len = 0, ret; tl_t m;
	VP_ASSUME(in.n <= N);
	der = (octet*)vp_dup_end(in.buf, in.n, N);
	ret = derTLDec(&tag, &len, der, in.n);
	m = model_tl(in.buf, in.n);
	VP_WITNESS();
	VP_ASSERT((ret != SIZE_MAX) == m.ok, "derTLDec accepts exactly the TL prefixes of the DER grammar");
	if (ret != SIZE_MAX)
	{
		VP_ASSERT(ret <= in.n, "derTLDec consumed <= count");
		VP_ASSERT(ret == m.t_count + m.l_count && tag == m.tag && len == m.len, "derTLDec returns tag/len of the grammar");
	}
}

/* derDec: total, bounded, value inside input, canonical (re-encode == consumed octets) */
void h_dec(void)
{
	VP_INPUT();
	octet* der; u32 tag = 0; const octet* val = 0; size_t len = 0, ret; tl_t m;
	VP_ASSUME(in.n <= N);
	der = (octet*)vp_dup_end(in.buf, in.n, N);
	ret = derDec(&tag, &val, &len, der, in.n);
	m = model_tl(in.buf, in.n);
	VP_WITNESS();
	VP_ASSERT((ret != SIZE_MAX) == (m.ok && m.len <= in.n - (m.t_count + m.l_count)), "derDec accepts exactly the TLVs that fit the input");
	if (ret != SIZE_MAX)
	{
		octet out[N + 16]; size_t k;
		VP_ASSERT(ret <= in.n, "derDec consumed <= count");
		VP_ASSERT(val == der + m.t_count + m.l_count && len == m.len && ret == m.t_count + m.l_count + m.len, "derDec value window inside input");
		k = derEnc(0, tag, val, len);
		VP_ASSERT(k == ret, "derEnc(0,...) of a decoded TLV has the consumed length");
		k = derEnc(out, tag, val, len);
		VP_ASSERT(k == ret && vp_eq(out, der, ret), "re-encoding a decoded TLV gives the accepted octets");
	}
}

/* derIsValid / derIsValid2 / derStartsWith */
void h_isvalid(void)
{
	VP_INPUT();
	octet* der; tl_t m; int v, v2, sw;
	VP_ASSUME(in.n <= N);
	der = (octet*)vp_dup_end(in.buf, in.n, N);
	m = model_tl(in.buf, in.n);
	v = derIsValid(der, in.n) != 0;
	v2 = derIsValid2(der, in.n, in.tag) != 0;
	sw = derStartsWith(der, in.n, in.tag) != 0;
	VP_WITNESS();
	VP_ASSERT(v == (m.ok && m.len == in.n - (m.t_count + m.l_count)), "derIsValid == grammar and exact length");
	VP_ASSERT(v2 == (v && m.tag == in.tag), "derIsValid2 == derIsValid and tag matches");
	if (m.ok) VP_ASSERT(sw == (m.tag == in.tag), "derStartsWith on a well-formed TL");
	if (sw) VP_ASSERT(in.n >= 1 && model_tag_valid(in.tag), "derStartsWith only for a tag that is present and well-formed");
}

/* derTLEnc -> derTLDec round trip for every tag word and every length */
void h_tlenc(void)
{
	VP_INPUT();
	octet out[4 + 9]; size_t k, k2, l = 0; u32 t = 0;
	k = derTLEnc(0, in.tag, in.len);
	VP_WITNESS();
	VP_ASSERT((k != SIZE_MAX) == (model_tag_valid(in.tag) != 0), "derTLEnc accepts exactly the well-formed tag words");
	if (k != SIZE_MAX)
	{
		octet* o;
		VP_ASSERT(k <= sizeof(out), "TL prefix length <= 13");
		o = (octet*)vp_alloc_end(k, 16);
		VP_ASSERT(derTLEnc(o, in.tag, in.len) == k, "derTLEnc length stable");
		k2 = derTLDec(&t, &l, o, k);
		if (in.len != SIZE_MAX)
			VP_ASSERT(k2 == k && t == in.tag && l == in.len, "derTLDec inverts derTLEnc");
	}
}

/* SIZE: decoder total/bounded/canonical + round trip */
void h_sizedec(void)
{
	VP_INPUT();
	octet* der; size_t val = 0, ret; tl_t m;
	VP_ASSUME(in.n <= N);
	der = (octet*)vp_dup_end(in.buf, in.n, N);
	ret = derTSIZEDec(&val, der, in.n, in.tag);
	m = model_tl(in.buf, in.n);
	VP_WITNESS();
	if (ret != SIZE_MAX)
	{
		octet out[N + 16]; size_t k;
		VP_ASSERT(m.ok && m.tag == in.tag && ret == m.t_count + m.l_count + m.len && ret <= in.n, "derTSIZEDec accepts only a TLV inside the input");
		VP_ASSERT(m.len >= 1, "INTEGER has at least one content octet");
		k = derTSIZEEnc(out, in.tag, val);
		VP_ASSERT(k == ret && vp_eq(out, der, ret), "re-encoding a decoded SIZE gives the accepted octets");
	}
}

void h_sizeenc(void)
{
	VP_INPUT();
	octet* o; size_t k, v = ~in.val;
	VP_ASSUME(model_tag_valid(in.tag));
	k = derTSIZEEnc(0, in.tag, in.val);
	VP_WITNESS();
	VP_ASSERT(k != SIZE_MAX && k <= 4 + 1 + 9, "derTSIZEEnc length");
	o = (octet*)vp_alloc_end(k, 16);
	VP_ASSERT(derTSIZEEnc(o, in.tag, in.val) == k, "derTSIZEEnc length stable");
	VP_ASSERT(derTSIZEDec(&v, o, k, in.tag) == k && v == in.val, "derTSIZEDec inverts derTSIZEEnc");
	VP_ASSERT(derTSIZEDec2(o, k, in.tag, in.val) == k, "derTSIZEDec2 accepts own encoding");
}

/* UINT / BIT / OCT / PSTR decoders: probe length, allocate exactly, decode, re-encode */
void h_uintdec(void)
{
	VP_INPUT();
	octet* der; octet* val; size_t len = 0, ret, ret2;
	VP_ASSUME(in.n <= N);
	der = (octet*)vp_dup_end(in.buf, in.n, N);
	ret = derTUINTDec(0, &len, der, in.n, in.tag);
	VP_WITNESS();
	if (ret != SIZE_MAX)
	{
		octet out[N + 16]; size_t k;
		VP_ASSERT(ret <= in.n && len >= 1 && len <= ret, "derTUINTDec bounded");
		val = (octet*)vp_alloc_end(len, N);
		ret2 = derTUINTDec(val, 0, der, in.n, in.tag);
		VP_ASSERT(ret2 == ret, "derTUINTDec stable");
		k = derTUINTEnc(out, in.tag, val, len);
		VP_ASSERT(k == ret && vp_eq(out, der, ret), "re-encoding a decoded UINT gives the accepted octets");
		VP_ASSERT(derTUINTDec2(val, der, in.n, in.tag, len) == ret, "derTUINTDec2 agrees");
	}
}

void h_bitdec(void)
{
	VP_INPUT();
	octet* der; octet* val; size_t len = 0, ret, ret2;
	VP_ASSUME(in.n <= N);
	der = (octet*)vp_dup_end(in.buf, in.n, N);
	ret = derTBITDec(0, &len, der, in.n, in.tag);
	VP_WITNESS();
	if (ret != SIZE_MAX)
	{
		octet out[N + 16]; size_t k;
		VP_ASSERT(ret <= in.n && (len + 7) / 8 < ret, "derTBITDec bounded");
		val = (octet*)vp_alloc_end((len + 7) / 8, N);
		ret2 = derTBITDec(val, 0, der, in.n, in.tag);
		VP_ASSERT(ret2 == ret, "derTBITDec stable");
		k = derTBITEnc(out, in.tag, val, len);
		VP_ASSERT(k == ret && vp_eq(out, der, ret), "re-encoding a decoded BIT STRING gives the accepted octets");
	}
}

void h_octdec(void)
{
	VP_INPUT();
	octet* der; octet* val; size_t len = 0, ret, ret2;
	VP_ASSUME(in.n <= N);
	der = (octet*)vp_dup_end(in.buf, in.n, N);
	ret = derTOCTDec(0, &len, der, in.n, in.tag);
	VP_WITNESS();
	if (ret != SIZE_MAX)
	{
		octet out[N + 16]; size_t k;
		VP_ASSERT(ret <= in.n && len < ret, "derTOCTDec bounded");
		val = (octet*)vp_alloc_end(len, N);
		ret2 = derTOCTDec(val, 0, der, in.n, in.tag);
		VP_ASSERT(ret2 == ret, "derTOCTDec stable");
		k = derEnc(out, in.tag, val, len);
		VP_ASSERT(k == ret && vp_eq(out, der, ret), "re-encoding a decoded OCTET STRING gives the accepted octets");
		VP_ASSERT(derTOCTDec2(val, der, in.n, in.tag, len) == ret, "derTOCTDec2 agrees");
	}
}

void h_pstrdec(void)
{
	VP_INPUT();
	octet* der; char* val; size_t len = 0, ret, ret2;
	VP_ASSUME(in.n <= N);
	der = (octet*)vp_dup_end(in.buf, in.n, N);
	ret = derTPSTRDec(0, &len, der, in.n, in.tag);
	VP_WITNESS();
	if (ret != SIZE_MAX)
	{
		octet out[N + 16]; size_t k;
		VP_ASSERT(ret <= in.n && len < ret, "derTPSTRDec bounded");
		val = (char*)vp_alloc_end(len + 1, N + 1);
		ret2 = derTPSTRDec(val, 0, der, in.n, in.tag);
		VP_ASSERT(ret2 == ret && val[len] == 0, "derTPSTRDec stable, terminated");
		k = derTPSTREnc(out, in.tag, val);
		VP_ASSERT(k == ret && vp_eq(out, der, ret), "re-encoding a decoded PrintableString gives the accepted octets");
	}
}

/* UINT encode -> decode */
void h_uintenc(void)
{
	VP_INPUT();
	octet* o; octet* val; octet back[8]; size_t k, l = 0;
	VP_ASSUME(1 <= in.len && in.len <= 8);
	VP_ASSUME(model_tag_valid(in.tag));
	val = (octet*)vp_dup_end(in.v, in.len, 8);
	k = derTUINTEnc(0, in.tag, val, in.len);
	VP_WITNESS();
	VP_ASSERT(k != SIZE_MAX && k <= 4 + 1 + 9, "derTUINTEnc length");
	o = (octet*)vp_alloc_end(k, 16);
	VP_ASSERT(derTUINTEnc(o, in.tag, val, in.len) == k, "derTUINTEnc stable");
	VP_ASSERT(derTUINTDec(back, &l, o, k, in.tag) == k, "derTUINTDec accepts derTUINTEnc output");
	{
		/* value equal up to insignificant high zero octets (little-endian) */
		size_t i; int same = l <= in.len && l >= 1;
		for (i = 0; i < 8; ++i)
		{
			octet a = i < in.len ? in.v[i] : 0, b = (i < l && same) ? back[i] : 0;
			if (a != b) same = 0;
		}
		VP_ASSERT(same, "derTUINTDec inverts derTUINTEnc");
	}
}

/* BIT encode -> decode */
void h_bitenc(void)
{
	VP_INPUT();
	octet* o; octet* val; octet back[8]; size_t k, l = 0, bytes;
	VP_ASSUME(in.len <= 40);
	VP_ASSUME(model_tag_valid(in.tag));
	bytes = (in.len + 7) / 8;
	val = (octet*)vp_dup_end(in.v, bytes, 8);
	k = derTBITEnc(0, in.tag, val, in.len);
	VP_WITNESS();
	VP_ASSERT(k != SIZE_MAX && k <= 4 + 1 + 1 + 5, "derTBITEnc length");
	o = (octet*)vp_alloc_end(k, 16);
	VP_ASSERT(derTBITEnc(o, in.tag, val, in.len) == k, "derTBITEnc stable");
	VP_ASSERT(derTBITDec(back, &l, o, k, in.tag) == k && l == in.len, "derTBITDec accepts derTBITEnc output");
	{
		size_t i; int same = 1;
		for (i = 0; i < in.len; ++i)
			if (((in.v[i / 8] >> (7 - i % 8)) & 1) != ((back[i / 8] >> (7 - i % 8)) & 1)) same = 0;
		VP_ASSERT(same, "derTBITDec inverts derTBITEnc (bits 0..len-1)");
	}
	VP_ASSERT(derTBITDec2(back, o, k, in.tag, in.len) == k, "derTBITDec2 accepts own encoding");
}

/* SEQ anchors: DecStart/DecStop on arbitrary input */
void h_seqdec(void)
{
	VP_INPUT();
	octet* der; der_anchor_t a[1]; size_t ret; tl_t m;
	VP_ASSUME(in.n <= N);
	der = (octet*)vp_dup_end(in.buf, in.n, N);
	VP_ASSUME(model_tag_valid(in.tag));
	ret = derTSEQDecStart(a, der, in.n, in.tag);
	m = model_tl(in.buf, in.n);
	VP_WITNESS();
	if (ret != SIZE_MAX)
	{
		VP_ASSERT(m.ok && m.tag == in.tag && ret == m.t_count + m.l_count && ret <= in.n, "derTSEQDecStart accepts only a TL prefix inside the input");
		if (m.len <= in.n - ret)
			VP_ASSERT(derTSEQDecStop(der + ret + m.len, a) == 0, "derTSEQDecStop accepts the position L octets after the prefix");
		/* with L beyond the input derTSEQDecStop forms der+L (out-of-object pointer, ub_notes): not asserted */
		if (m.len <= in.n - ret && in.len <= in.n - ret && in.len != m.len)
			VP_ASSERT(derTSEQDecStop(der + ret + in.len, a) == SIZE_MAX, "derTSEQDecStop rejects every other position");
	}
}
