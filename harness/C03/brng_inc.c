/* C03/K: the 256-bit counter increment of brng CTR (static brngBlockInc of the real brng.c,
 * included so that the file-local function is the shipped one): s <- s + 1 mod 2^256 and no
 * octet outside s changes, with s laid out as in brng_ctr_st (r follows s). */
#include "vp.h"
#include "crypto/brng.c"

struct vp_in { octet s[32]; octet r[32]; };

void h_inc(void)
{
	VP_INPUT();
	brng_ctr_st st; unsigned i, carry = 1; octet exp[32]; int ok = 1, rsame = 1;
	memcpy(st.s, in.s, 32); memcpy(st.r, in.r, 32);
	for (i = 0; i < 32; ++i) { unsigned v = in.s[i] + carry; exp[i] = (octet)v; carry = v >> 8; }
	brngBlockInc(st.s);
	for (i = 0; i < 32; ++i) { if (st.s[i] != exp[i]) ok = 0; if (st.r[i] != in.r[i]) rsame = 0; }
	VP_WITNESS();
	VP_ASSERT(ok, "brngBlockInc: s == s + 1 mod 2^256 (little-endian)");
	VP_ASSERT(rsame, "brngBlockInc leaves r (the octets after s) unchanged");
}
