/* C03/K: botp dynamic truncation and counter increment against RFC 4226 models */
#include "vp.h"
#include <bee2/crypto/botp.h>

struct vp_in { octet mac[32]; size_t mac_len; size_t digit; octet ctr[8]; };

void h_dt(void)
{
	VP_INPUT();
	char otp[10]; unsigned off, i; unsigned long long p, m = 1; octet* mac; char* o;
	VP_ASSUME(in.mac_len >= 20 && in.mac_len <= 32);
#ifdef DIGIT
	VP_ASSUME(in.digit == DIGIT);
#else
	VP_ASSUME(4 <= in.digit && in.digit <= 9);
#endif
	mac = (octet*)vp_dup_end(in.mac, in.mac_len, 32);
	o = (char*)vp_alloc_end(in.digit + 1, 10);
	botpDT(o, in.digit, mac, in.mac_len);
	off = in.mac[in.mac_len - 1] & 15;
	p = ((unsigned long long)(in.mac[off] & 0x7F) << 24) | ((unsigned long long)in.mac[off + 1] << 16) |
		((unsigned long long)in.mac[off + 2] << 8) | in.mac[off + 3];
	for (i = 0; i < in.digit; ++i) m *= 10;
	p %= m;
	VP_WITNESS();
	for (i = 0; i < 9; ++i)
		if (i < in.digit)
		{
			VP_ASSERT(o[in.digit - 1 - i] == (char)('0' + p % 10), "botpDT digit == RFC 4226 dynamic truncation");
			p /= 10;
		}
	VP_ASSERT(o[in.digit] == 0, "botpDT terminates the string");
}

void h_ctrnext(void)
{
	VP_INPUT();
	octet c[8]; unsigned long long v = 0, w = 0; unsigned i;
	memcpy(c, in.ctr, 8);
	for (i = 0; i < 8; ++i) v = (v << 8) | in.ctr[i];
	botpCtrNext(c);
	for (i = 0; i < 8; ++i) w = (w << 8) | c[i];
	VP_WITNESS();
	VP_ASSERT(w == v + 1, "botpCtrNext == +1 mod 2^64 (big-endian)");
}
