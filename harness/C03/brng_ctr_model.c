/* C03/G: brngCTRStart/StepR/StepG (real brng.c, real belt_hash.c/belt_compr.c) == algorithm 6.2.4 of STB 34.101.47
 * written directly from the standard, over the uninterpreted belt cipher:
 *   s <- iv, r <- ~s;  for each block t:  Y_t <- belt-hash(key || s || X_t || r),  s <- s + 1 mod 2^256,  r <- r xor Y_t
 * (X_t = the caller's buffer content, zero-padded to 32 octets; a short last block outputs the left part of Y_t and the
 * remaining octets are kept for the next request). Request lengths are concrete (instances): first request a octets,
 * second request b octets; key, iv and buffer contents symbolic. The final iv (StepG) must equal s. */
#include "vp.h"
#include <bee2/crypto/brng.h>
#include <bee2/crypto/belt.h>
#ifndef MAXN
#define MAXN 72
#endif
struct vp_in { octet key[32]; octet iv[32]; octet x[MAXN]; };

static void model(octet out[], size_t n1, size_t n2, const octet x[], const octet key[32], const octet iv[32], octet s_out[32])
{
	octet s[32], r[32], y[32], blk[32], msg[128]; size_t pos = 0, i, k, n = n1 + n2, have = 0; unsigned c;
	octet st[512];   /* belt-hash state */
	memcpy(s, iv, 32); for (i = 0; i < 32; ++i) r[i] = (octet)~s[i];
	while (pos < n)
	{
		size_t end = (pos < n1) ? n1 : n;            /* a request never spans the boundary between the two calls */
		if (have)
		{	/* octets left over from the previous (short) block are served first */
			size_t take = have < end - pos ? have : end - pos;
			for (i = 0; i < take; ++i) out[pos + i] = y[32 - have + i];
			have -= take; pos += take;
			continue;
		}
		k = end - pos < 32 ? end - pos : 32;
		memset(blk, 0, 32); memcpy(blk, x + pos, k);
		memcpy(msg, key, 32); memcpy(msg + 32, s, 32); memcpy(msg + 64, blk, 32); memcpy(msg + 96, r, 32);
		beltHashStart(st); beltHashStepH(msg, 128, st); beltHashStepG(y, st);
		for (c = 1, i = 0; i < 32; ++i) { c += s[i]; s[i] = (octet)c; c >>= 8; }
		for (i = 0; i < 32; ++i) r[i] ^= y[i];
		memcpy(out + pos, y, k);
		have = 32 - k; pos += k;
	}
	memcpy(s_out, s, 32);
}

static void vp_body(struct vp_in* pin, size_t n1, size_t n2)
{
#define in (*pin)
	octet buf[MAXN], ref[MAXN], ivg[32], sref[32]; void* st;
	VP_ASSUME(n1 + n2 <= MAXN && beltHash_keep() <= 512);
	memcpy(buf, in.x, MAXN);
	st = malloc(brngCTR_keep()); VP_MALLOC_OK(st);
	brngCTRStart(st, in.key, in.iv);
	brngCTRStepR(buf, n1, st);
	brngCTRStepR(buf + n1, n2, st);
	brngCTRStepG(ivg, st);
	model(ref, n1, n2, in.x, in.key, in.iv, sref);
	VP_WITNESS();
	VP_ASSERT(vp_eq(buf, ref, n1 + n2), "brngCTR output == algorithm 6.2.4 (belt-hash(key || s || X_t || r), s + 1, r xor Y_t)");
	VP_ASSERT(vp_eq(ivg, sref, 32), "brngCTRStepG returns the updated s");
#undef in
}
void harness(void) { VP_INPUT(); vp_body(&in, 32, 8); }
