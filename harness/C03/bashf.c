/* C03/K: bashF (real unit selected by bash_f.c for the profile) == STB 34.101.77 bash-f,
 * for all 2^1536 states. Model written loop-style from the standard. */
#include "vp.h"
#include <bee2/crypto/bash.h>

struct vp_in { unsigned long long s[24]; };

typedef unsigned long long W;
static W rot(W x, unsigned n) { return (x << n) | (x >> (64 - n)); }

static void model_s(W* w0, W* w1, W* w2, unsigned m1, unsigned n1, unsigned m2, unsigned n2)
{
	W W0 = *w0, W1 = *w1, W2 = *w2, T0, T1, T2;
	T0 = rot(W0, m1);
	W0 = W0 ^ W1 ^ W2;
	T1 = W1 ^ rot(W0, n1);
	W1 = T0 ^ T1;
	W2 = W2 ^ rot(W2, m2) ^ rot(T1, n2);
	T0 = ~W2;
	T1 = W0 | W2;
	T2 = W0 & W1;
	T0 = T0 | W1;
	W1 ^= T1; W2 ^= T2; W0 ^= T0;
	*w0 = W0; *w1 = W1; *w2 = W2;
}

#ifndef ROUNDS
#define ROUNDS 24
#endif

static void model_f(W S[24])
{
	static const unsigned char P[24] = {15,10,9,12,11,14,13,8, 17,16,19,18,21,20,23,22, 6,3,0,5,2,7,4,1};
	W C = 0x3BF5080AC8BA94B1ull; const W A = 0xDC2BE1997FE0D8AEull;
	unsigned i, j;
	for (i = 0; i < ROUNDS; ++i)
	{
		unsigned m1 = 8, n1 = 53, m2 = 14, n2 = 1; W T[24];
		for (j = 0; j < 8; ++j)
		{
			model_s(&S[j], &S[8 + j], &S[16 + j], m1, n1, m2, n2);
			m1 = 7 * m1 % 64; n1 = 7 * n1 % 64; m2 = 7 * m2 % 64; n2 = 7 * n2 % 64;
		}
		for (j = 0; j < 24; ++j) T[j] = S[P[j]];
		for (j = 0; j < 24; ++j) S[j] = T[j];
		S[23] ^= C;
		C = (C & 1) ? (C >> 1) ^ A : (C >> 1);
	}
}

void h_bashf(void)
{
	VP_INPUT();
	W blk[24]; W S[24]; unsigned i; int same = 1; void* stack;
	/* this host is little-endian: the octet string of the standard is the memory image of the words */
	for (i = 0; i < 24; ++i) blk[i] = S[i] = in.s[i];
	stack = vp_alloc(bashF_deep());
	bashF((octet*)blk, stack);
	model_f(S);
	for (i = 0; i < 24; ++i) if (blk[i] != S[i]) same = 0;
	VP_WITNESS();
	VP_ASSERT(same, "bashF == bash-f of STB 34.101.77 (24 rounds)");
}
