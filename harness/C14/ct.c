/* C14/B: data-independent control flow by self-composition over the branch trace.
 * The linked program is instrumented with `goto-instrument --branch vp_br`: a call to vp_br("taken")
 * / vp_br("not-taken") is inserted at the two arms of every conditional goto of every function. The routine under
 * test runs twice with EQUAL lengths and INDEPENDENT symbolic data; the two branch traces must be
 * identical. libc comparison functions are given early-exit byte-loop bodies (vp_libc.c) BEFORE the
 * instrumentation, otherwise CBMC's branch-free built-in models would hide a memcmp. */
#include "vp.h"
#include <bee2/core/mem.h>
#include <bee2/math/ww.h>
#include <bee2/math/zz.h>

#ifndef TRMAX
#define TRMAX 400
#endif
#ifndef CMAX
#define CMAX 16
#endif
#ifndef NMAX
#define NMAX 3
#endif

unsigned char vp_tr[2][TRMAX];
unsigned vp_tl[2];
unsigned vp_sel;
unsigned vp_on;

void vp_br(const char* id)
{
	if (vp_on)
	{
		unsigned k = vp_tl[vp_sel];
		if (k < TRMAX) vp_tr[vp_sel][k] = (unsigned char)(id[0] == 't');
		vp_tl[vp_sel] = k + 1;
	}
}

static int traces_equal(void)
{
	unsigned i; int same = vp_tl[0] == vp_tl[1];
	for (i = 0; i < TRMAX; ++i) if (i < vp_tl[0] && vp_tr[0][i] != vp_tr[1][i]) same = 0;
	return same;
}
#define RUN2(call0, call1) do { vp_tl[0] = vp_tl[1] = 0; vp_sel = 0; vp_on = 1; call0; vp_sel = 1; call1; vp_on = 0; } while (0)
#define CHECK(msg) do { VP_ASSERT(vp_tl[0] <= TRMAX && vp_tl[1] <= TRMAX, "trace buffer large enough"); VP_ASSERT(traces_equal(), msg); } while (0)

struct vp_in { octet x[2][CMAX]; octet y[2][CMAX]; size_t count; octet o; word a[2][2 * NMAX]; word b[2][NMAX]; word m[NMAX]; size_t n; word w[2]; };

void h_mem(void)
{
	VP_INPUT(); size_t c = in.count; volatile int r;
	VP_ASSUME(c <= CMAX);
	VP_WITNESS();
#ifdef USE_FAST
	RUN2(r = FAST(memEq)(in.x[0], in.y[0], c), r = FAST(memEq)(in.x[1], in.y[1], c)); CHECK("FAST memEq branch trace independent of data");
#else
	RUN2(r = SAFE(memEq)(in.x[0], in.y[0], c), r = SAFE(memEq)(in.x[1], in.y[1], c)); CHECK("SAFE memEq branch trace independent of data");
	RUN2(r = SAFE(memCmp)(in.x[0], in.y[0], c), r = SAFE(memCmp)(in.x[1], in.y[1], c)); CHECK("SAFE memCmp branch trace independent of data");
	RUN2(r = SAFE(memCmpRev)(in.x[0], in.y[0], c), r = SAFE(memCmpRev)(in.x[1], in.y[1], c)); CHECK("SAFE memCmpRev branch trace independent of data");
	RUN2(r = SAFE(memIsZero)(in.x[0], c), r = SAFE(memIsZero)(in.x[1], c)); CHECK("SAFE memIsZero branch trace independent of data");
	RUN2(r = SAFE(memIsRep)(in.x[0], c, in.o), r = SAFE(memIsRep)(in.x[1], c, in.o)); CHECK("SAFE memIsRep branch trace independent of data");
#endif
}

void h_ww(void)
{
	VP_INPUT(); size_t n = in.n; volatile int r;
	VP_ASSUME(n <= NMAX);
	VP_WITNESS();
	RUN2(r = SAFE(wwEq)(in.a[0], in.b[0], n), r = SAFE(wwEq)(in.a[1], in.b[1], n)); CHECK("SAFE wwEq branch trace independent of data");
	RUN2(r = SAFE(wwCmp)(in.a[0], in.b[0], n), r = SAFE(wwCmp)(in.a[1], in.b[1], n)); CHECK("SAFE wwCmp branch trace independent of data");
	RUN2(r = SAFE(wwCmpW)(in.a[0], n, in.w[0]), r = SAFE(wwCmpW)(in.a[1], n, in.w[1])); CHECK("SAFE wwCmpW branch trace independent of data");
	{ size_t m = in.count; VP_ASSUME(m <= NMAX);   /* operand lengths n, m symbolic but equal in both runs */
	  RUN2(r = SAFE(wwCmp2)(in.a[0], n, in.b[0], m), r = SAFE(wwCmp2)(in.a[1], n, in.b[1], m)); CHECK("SAFE wwCmp2 branch trace independent of data (n < m, n == m, n > m)"); }
	RUN2(r = SAFE(wwIsZero)(in.a[0], n), r = SAFE(wwIsZero)(in.a[1], n)); CHECK("SAFE wwIsZero branch trace independent of data");
	RUN2(r = SAFE(wwIsW)(in.a[0], n, in.w[0]), r = SAFE(wwIsW)(in.a[1], n, in.w[1])); CHECK("SAFE wwIsW branch trace independent of data");
	RUN2(r = SAFE(wwIsRepW)(in.a[0], n, in.w[0]), r = SAFE(wwIsRepW)(in.a[1], n, in.w[1])); CHECK("SAFE wwIsRepW branch trace independent of data");
}

void h_zzmod(void)
{
	VP_INPUT(); size_t n = in.n; word c[NMAX];
	VP_ASSUME(1 <= n && n <= NMAX);
	/* header preconditions (a, b < mod) for both data sets */
	VP_ASSUME(wwCmp(in.a[0], in.m, n) < 0 && wwCmp(in.b[0], in.m, n) < 0 && wwCmp(in.a[1], in.m, n) < 0 && wwCmp(in.b[1], in.m, n) < 0);
	VP_WITNESS();
	RUN2(SAFE(zzAddMod)(c, in.a[0], in.b[0], in.m, n), SAFE(zzAddMod)(c, in.a[1], in.b[1], in.m, n)); CHECK("SAFE zzAddMod branch trace independent of operand values");
	RUN2(SAFE(zzSubMod)(c, in.a[0], in.b[0], in.m, n), SAFE(zzSubMod)(c, in.a[1], in.b[1], in.m, n)); CHECK("SAFE zzSubMod branch trace independent of operand values");
	RUN2(SAFE(zzNegMod)(c, in.a[0], in.m, n), SAFE(zzNegMod)(c, in.a[1], in.m, n)); CHECK("SAFE zzNegMod branch trace independent of operand values");
	RUN2(SAFE(zzDoubleMod)(c, in.a[0], in.m, n), SAFE(zzDoubleMod)(c, in.a[1], in.m, n)); CHECK("SAFE zzDoubleMod branch trace independent of operand values");
	if (in.m[0] & 1) { RUN2(SAFE(zzHalfMod)(c, in.a[0], in.m, n), SAFE(zzHalfMod)(c, in.a[1], in.m, n)); CHECK("SAFE zzHalfMod branch trace independent of operand values"); }
	{ volatile int r; RUN2(r = SAFE(zzIsSumEq)(c, in.a[0], in.b[0], n), r = SAFE(zzIsSumEq)(c, in.a[1], in.b[1], n)); CHECK("SAFE zzIsSumEq branch trace independent of operand values"); }
}

/* ---- verification entry points and symmetric primitives: key, tag and data secret ---- */
#include <bee2/crypto/belt.h>
#include <bee2/crypto/bash.h>
#ifndef DMAX
#define DMAX 40
#endif
struct vp_sec { octet key[2][32]; octet data[2][DMAX]; octet tag[2][32]; octet iv[2][16]; octet hdr[2][16]; };
static struct vp_sec vp_secret(void) { struct vp_sec s; return s; }   /* uninitialised = arbitrary */

static octet vp_state[1024];

#define SEC_RUN(body0, body1, msg) do { RUN2(body0, body1); CHECK(msg); } while (0)

static void body(struct vp_sec* s, size_t len, size_t klen)
{
	volatile int r; octet out[64]; octet buf[DMAX]; unsigned j;
	VP_ASSUME(len <= DMAX);
	VP_WITNESS();
/* the statement is expanded twice (no loop: a loop's own branch would land in the traces asymmetrically) */
#define BOTH(stmt) do { vp_tl[0] = vp_tl[1] = 0; vp_on = 1; vp_sel = 0; j = 0; stmt; vp_sel = 1; j = 1; stmt; vp_on = 0; } while (0)
#if defined(T_MAC)
	VP_ASSUME(beltMAC_keep() <= sizeof vp_state);
	BOTH((beltMACStart(vp_state, s->key[j], klen), beltMACStepA(s->data[j], len, vp_state), r = beltMACStepV(s->tag[j], vp_state)));
	CHECK("beltMAC Start/StepA/StepV: branch trace independent of key, data and tag");
#elif defined(T_HMAC)
	VP_ASSUME(beltHMAC_keep() <= sizeof vp_state);
	BOTH((beltHMACStart(vp_state, s->key[j], klen), beltHMACStepA(s->data[j], len, vp_state), r = beltHMACStepV(s->tag[j], vp_state)));
	CHECK("beltHMAC Start/StepA/StepV: branch trace independent of key, data and tag");
#elif defined(T_HASH)
	VP_ASSUME(beltHash_keep() <= sizeof vp_state);
	BOTH((beltHashStart(vp_state), beltHashStepH(s->data[j], len, vp_state), r = beltHashStepV(s->tag[j], vp_state)));
	CHECK("beltHash StepH/StepV: branch trace independent of data and hash value");
#elif defined(T_DWP)
	VP_ASSUME(beltDWP_keep() <= sizeof vp_state);
#if defined(DWP_PART) && DWP_PART == 1
	BOTH((memcpy(buf, s->data[j], DMAX), beltDWPStart(vp_state, s->key[j], klen, s->iv[j])));
#elif defined(DWP_PART) && DWP_PART == 2
	BOTH((memcpy(buf, s->data[j], DMAX), beltDWPStart(vp_state, s->key[j], klen, s->iv[j]), beltDWPStepI(s->hdr[j], 16, vp_state)));
#elif defined(DWP_PART) && DWP_PART == 3
	BOTH((memcpy(buf, s->data[j], DMAX), beltDWPStart(vp_state, s->key[j], klen, s->iv[j]), beltDWPStepA(buf, len, vp_state)));
#elif defined(DWP_PART) && DWP_PART == 4
	BOTH((memcpy(buf, s->data[j], DMAX), beltDWPStart(vp_state, s->key[j], klen, s->iv[j]), beltDWPStepD(buf, len, vp_state)));
#else
	BOTH((memcpy(buf, s->data[j], DMAX), beltDWPStart(vp_state, s->key[j], klen, s->iv[j]), beltDWPStepI(s->hdr[j], 16, vp_state),
		beltDWPStepA(buf, len, vp_state), r = beltDWPStepV(s->tag[j], vp_state), beltDWPStepD(buf, len, vp_state)));
#endif
	CHECK("beltDWP Start/StepI/StepA/StepV/StepD: branch trace independent of key, iv, data and tag");
#elif defined(T_CHE)
	VP_ASSUME(beltCHE_keep() <= sizeof vp_state);
	BOTH((memcpy(buf, s->data[j], DMAX), beltCHEStart(vp_state, s->key[j], klen, s->iv[j]), beltCHEStepI(s->hdr[j], 16, vp_state),
		beltCHEStepA(buf, len, vp_state), r = beltCHEStepV(s->tag[j], vp_state), beltCHEStepD(buf, len, vp_state)));
	CHECK("beltCHE Start/StepI/StepA/StepV/StepD: branch trace independent of key, iv, data and tag");
#elif defined(T_KWP)
	{ err_t e; octet dst[DMAX];
	BOTH((e = beltKWPUnwrap(dst, s->data[j], len, s->hdr[j], s->key[j], klen)));
	CHECK("beltKWPUnwrap: branch trace independent of key, token and header"); }
#elif defined(T_BASHV)
	VP_ASSUME(bashHash_keep() <= sizeof vp_state);
	BOTH((bashHashStart(vp_state, 128), bashHashStepH(s->data[j], len, vp_state), r = bashHashStepV(s->tag[j], 32, vp_state)));
	CHECK("bashHash StepH/StepV: branch trace independent of data and hash value");
#elif defined(T_BLOCK)
	{ u32 k[8]; octet blk[16];
	BOTH((beltKeyExpand2(k, s->key[j], klen), memcpy(blk, s->data[j], 16), beltBlockEncr(blk, k), beltBlockDecr(blk, k)));
	CHECK("beltKeyExpand2/beltBlockEncr/beltBlockDecr: branch trace independent of key and block"); }
#elif defined(T_WBL)
	VP_ASSUME(beltWBL_keep() <= sizeof vp_state);
	BOTH((memcpy(buf, s->data[j], DMAX), beltWBLStart(vp_state, s->key[j], klen), beltWBLStepE(buf, len, vp_state), beltWBLStepD(buf, len, vp_state)));
	CHECK("beltWBL StepE/StepD: branch trace independent of key and data");
#elif defined(T_BASHF)
	{ static unsigned long long blk[2][24];
	BOTH((memcpy(blk[j], s->data[j], DMAX < 192 ? DMAX : 192), bashF((octet*)blk[j], vp_state)));
	CHECK("bashF: branch trace independent of the state"); }
#endif
}

/* entry points: concrete lengths (the trace may depend on lengths), arbitrary secrets */
#define ENTRY(nm, len, klen) void nm(void) { struct vp_sec s = vp_secret(); body(&s, len, klen); }
ENTRY(h_sec_0_16, 0, 16) ENTRY(h_sec_7_24, 7, 24) ENTRY(h_sec_16_32, 16, 32) ENTRY(h_sec_20_32, 20, 32) ENTRY(h_sec_33_32, 33, 32) ENTRY(h_sec_40_32, 40, 32)
