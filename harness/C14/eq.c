/* C14/A: SAFE edition == FAST edition for the routines that ship in both (mem, ww, word-level CLZ/CTZ, hex) */
#include "vp.h"
#include <bee2/core/mem.h>
#include <bee2/core/hex.h>
#include <bee2/core/u16.h>
#include <bee2/core/u32.h>
#include <bee2/core/u64.h>
#include <bee2/math/ww.h>

#ifndef CMAX
#define CMAX 20
#endif
#ifndef NMAX
#define NMAX 4
#endif
struct vp_in { octet x[CMAX]; octet y[CMAX]; size_t count; octet o; word a[NMAX]; word b[NMAX]; size_t n, m; word w; u16 h; u32 s; unsigned long long d; };

static int sgn(int v) { return (v > 0) - (v < 0); }

void h_mem(void)
{
	VP_INPUT();
	octet *x, *y; size_t c = in.count;
	VP_ASSUME(c <= CMAX);
	x = (octet*)vp_dup_end(in.x, c, CMAX); y = (octet*)vp_dup_end(in.y, c, CMAX);
	VP_WITNESS();
	VP_ASSERT((SAFE(memEq)(x, y, c) != 0) == (FAST(memEq)(x, y, c) != 0), "memEq SAFE == FAST");
	VP_ASSERT(sgn(SAFE(memCmp)(x, y, c)) == sgn(FAST(memCmp)(x, y, c)), "memCmp SAFE == FAST");
	VP_ASSERT(sgn(SAFE(memCmpRev)(x, y, c)) == sgn(FAST(memCmpRev)(x, y, c)), "memCmpRev SAFE == FAST");
	VP_ASSERT((SAFE(memIsZero)(x, c) != 0) == (FAST(memIsZero)(x, c) != 0), "memIsZero SAFE == FAST");
	VP_ASSERT((SAFE(memIsRep)(x, c, in.o) != 0) == (FAST(memIsRep)(x, c, in.o) != 0), "memIsRep SAFE == FAST");
	/* and the results are the documented ones */
	{ size_t i; int eq = 1, z = 1, rep = 1, cmp = 0, cmpr = 0;
	  for (i = 0; i < c; ++i) { if (x[i] != y[i]) { eq = 0; if (!cmp) cmp = x[i] < y[i] ? -1 : 1; } if (x[i]) z = 0; if (x[i] != in.o) rep = 0; }
	  for (i = c; i-- > 0;) if (x[i] != y[i] && !cmpr) cmpr = x[i] < y[i] ? -1 : 1;
	  VP_ASSERT((SAFE(memEq)(x, y, c) != 0) == eq, "memEq == octet-wise equality");
	  VP_ASSERT(sgn(SAFE(memCmp)(x, y, c)) == cmp, "memCmp == lexicographic order from the first octet");
	  VP_ASSERT(sgn(SAFE(memCmpRev)(x, y, c)) == cmpr, "memCmpRev == lexicographic order from the last octet");
	  VP_ASSERT((SAFE(memIsZero)(x, c) != 0) == z, "memIsZero");
	  VP_ASSERT((SAFE(memIsRep)(x, c, in.o) != 0) == rep, "memIsRep"); }
}

void h_ww(void)
{
	VP_INPUT();
	size_t n = in.n, m = in.m;
	VP_ASSUME(n <= NMAX && m <= NMAX);
	VP_WITNESS();
	VP_ASSERT((SAFE(wwEq)(in.a, in.b, n) != 0) == (FAST(wwEq)(in.a, in.b, n) != 0), "wwEq SAFE == FAST");
	VP_ASSERT(sgn(SAFE(wwCmp)(in.a, in.b, n)) == sgn(FAST(wwCmp)(in.a, in.b, n)), "wwCmp SAFE == FAST");
	VP_ASSERT(sgn(SAFE(wwCmp2)(in.a, n, in.b, m)) == sgn(FAST(wwCmp2)(in.a, n, in.b, m)), "wwCmp2 SAFE == FAST");
	VP_ASSERT(sgn(SAFE(wwCmpW)(in.a, n, in.w)) == sgn(FAST(wwCmpW)(in.a, n, in.w)), "wwCmpW SAFE == FAST");
	VP_ASSERT((SAFE(wwIsZero)(in.a, n) != 0) == (FAST(wwIsZero)(in.a, n) != 0), "wwIsZero SAFE == FAST");
	VP_ASSERT((SAFE(wwIsW)(in.a, n, in.w) != 0) == (FAST(wwIsW)(in.a, n, in.w) != 0), "wwIsW SAFE == FAST");
	VP_ASSERT((SAFE(wwIsRepW)(in.a, n, in.w) != 0) == (FAST(wwIsRepW)(in.a, n, in.w) != 0), "wwIsRepW SAFE == FAST");
	{ size_t i; int eq = 1, cmp = 0;
	  for (i = n; i-- > 0;) if (in.a[i] != in.b[i]) { eq = 0; if (!cmp) cmp = in.a[i] < in.b[i] ? -1 : 1; }
	  VP_ASSERT((SAFE(wwEq)(in.a, in.b, n) != 0) == eq, "wwEq == word-wise equality");
	  VP_ASSERT(sgn(SAFE(wwCmp)(in.a, in.b, n)) == cmp, "wwCmp == numeric order"); }
}

void h_clz(void)
{
	VP_INPUT();
	VP_WITNESS();
	VP_ASSERT(SAFE(u16CLZ)(in.h) == FAST(u16CLZ)(in.h) && SAFE(u16CTZ)(in.h) == FAST(u16CTZ)(in.h), "u16 CLZ/CTZ SAFE == FAST");
	VP_ASSERT(SAFE(u32CLZ)(in.s) == FAST(u32CLZ)(in.s) && SAFE(u32CTZ)(in.s) == FAST(u32CTZ)(in.s), "u32 CLZ/CTZ SAFE == FAST");
	VP_ASSERT(SAFE(u64CLZ)(in.d) == FAST(u64CLZ)(in.d) && SAFE(u64CTZ)(in.d) == FAST(u64CTZ)(in.d), "u64 CLZ/CTZ SAFE == FAST");
	{ size_t i, clz = 32, ctz = 32;
	  for (i = 0; i < 32; ++i) if ((in.s >> i) & 1) { clz = 31 - i; }
	  for (i = 32; i-- > 0;) if ((in.s >> i) & 1) { ctz = i; }
	  VP_ASSERT(SAFE(u32CLZ)(in.s) == clz && SAFE(u32CTZ)(in.s) == ctz, "u32CLZ/u32CTZ == bit-loop reference"); }
}
