/* C12: tmDateIsValid / tmDateIsValid2 == Gregorian calendar model, all inputs */
#include "vp.h"
#include <bee2/core/tm.h>

struct vp_in { size_t y, m, d; octet date[6]; };

static int model_leap(size_t y) { return (y % 4 == 0 && y % 100 != 0) || y % 400 == 0; }
static int model_valid(size_t y, size_t m, size_t d)
{
	static const unsigned char dim[13] = {0,31,28,31,30,31,30,31,31,30,31,30,31};
	size_t lim;
	if (y < 1583) return 0;            /* tm.h: Gregorian calendar, from 1583 */
	if (m < 1 || m > 12) return 0;
	lim = dim[m];
	if (m == 2 && model_leap(y)) lim = 29;
	return 1 <= d && d <= lim;
}

void h_date(void)
{
	VP_INPUT();
	VP_WITNESS();
	VP_ASSERT((tmDateIsValid(in.y, in.m, in.d) != 0) == (model_valid(in.y, in.m, in.d) != 0),
		"tmDateIsValid == calendar model");
}

void h_date2(void)
{
	int digits, ok;
	VP_INPUT();
	digits = in.date[0] <= 9 && in.date[1] <= 9 && in.date[2] <= 9 &&
		in.date[3] <= 9 && in.date[4] <= 9 && in.date[5] <= 9;
	ok = digits && model_valid(2000 + 10 * (size_t)in.date[0] + in.date[1],
		10 * (size_t)in.date[2] + in.date[3], 10 * (size_t)in.date[4] + in.date[5]);
	VP_WITNESS();
	VP_ASSERT((tmDateIsValid2(in.date) != 0) == ok, "tmDateIsValid2 accepts exactly six decimal digits of a calendar date");
}
