/* C12: ppIsIrred == irreducibility over GF(2), for EVERY polynomial of degree < DEG (16-bit words, n = 1).
 * The reference is a bit table computed by exact trial division in props/C12.py and passed as IRR_TABLE.
 * The scratch stack is generous on purpose (ppIsIrred_deep is C07's subject). */
#include "vp.h"
#include <bee2/math/pp.h>
#ifndef DEG
#define DEG 8
#endif
struct vp_in { word a; };
static const unsigned char IRR[(1 << DEG) / 8] = IRR_TABLE;
void h_irred(void)
{
	VP_INPUT();
	static word stack[64]; word a[1]; int expect, got;
	VP_ASSUME(in.a < (1u << DEG));
	a[0] = in.a;
	expect = (IRR[in.a >> 3] >> (in.a & 7)) & 1;
	got = ppIsIrred(a, 1, stack) != 0;
	VP_WITNESS();
	VP_ASSERT(got == expect, "ppIsIrred accepts exactly the irreducible polynomials");
}
