/* C19: the same source file built in two configurations must compute the same function on octet strings.
 * Configuration B is the same /repo file compiled with other macros (B_PER_W = 32 via the BEE2_VERIF_WORD hook,
 * or BASH_32) and every external function renamed f -> f__B (-Df=f__B), linked into one program with
 * configuration A (the shipped 64-bit build). Interfaces are octet strings (this host is little-endian: a word
 * array and its octet string are the same memory image). */
#include "vp.h"
#include <bee2/defs.h>

struct vp_in { octet blk[16]; size_t count; octet a[16]; octet b[16]; octet w[8]; unsigned long long s[24]; };

/* belt_lcl.c */
void beltBlockAddBitSizeU32(void* block, size_t count);      void beltBlockAddBitSizeU32__B(void* block, size_t count);
void beltHalfBlockAddBitSizeW(void* block, size_t count);    void beltHalfBlockAddBitSizeW__B(void* block, size_t count);
void beltBlockMulC(void* block);                             void beltBlockMulC__B(void* block);
void h_lcl(void)
{
	VP_INPUT();
	unsigned long long x[2], y[2];
	memcpy(x, in.blk, 16); memcpy(y, in.blk, 16);
	beltBlockAddBitSizeU32(x, in.count); beltBlockAddBitSizeU32__B(y, in.count);
	VP_WITNESS();
	VP_ASSERT(vp_eq(x, y, 16), "beltBlockAddBitSizeU32: B_PER_W=64 build == B_PER_W=32 build");
	memcpy(x, in.blk, 16); memcpy(y, in.blk, 16);
	beltHalfBlockAddBitSizeW(x, in.count); beltHalfBlockAddBitSizeW__B(y, in.count);
	VP_ASSERT(vp_eq(x, y, 8), "beltHalfBlockAddBitSizeW: B_PER_W=64 build == B_PER_W=32 build");
	memcpy(x, in.blk, 16); memcpy(y, in.blk, 16);
	beltBlockMulC(x); beltBlockMulC__B(y);
	VP_ASSERT(vp_eq(x, y, 16), "beltBlockMulC: both builds equal");
}

/* zz_add.c / ww.c through 16-octet operands: 2 words of 64 bits == 4 words of 32 bits */
unsigned long long zzAdd(void* c, const void* a, const void* b, size_t n);  unsigned zzAdd__B(void* c, const void* a, const void* b, size_t n);
unsigned long long zzSub(void* c, const void* a, const void* b, size_t n);  unsigned zzSub__B(void* c, const void* a, const void* b, size_t n);
int wwCmp(const void* a, const void* b, size_t n);                          int wwCmp__B(const void* a, const void* b, size_t n);
void zzNeg(void* b, const void* a, size_t n);                               void zzNeg__B(void* b, const void* a, size_t n);
size_t wwBitSize(const void* a, size_t n);                                  size_t wwBitSize__B(const void* a, size_t n);
static int sgn(int v) { return (v > 0) - (v < 0); }
void h_zz(void)
{
	VP_INPUT();
	unsigned long long a[2], b[2], c[2], d[2];
	memcpy(a, in.a, 16); memcpy(b, in.b, 16);
	VP_WITNESS();
	VP_ASSERT(zzAdd(c, a, b, 2) == zzAdd__B(d, a, b, 4) && vp_eq(c, d, 16), "zzAdd on 16 octets: 64-bit build == 32-bit build");
	VP_ASSERT(zzSub(c, a, b, 2) == zzSub__B(d, a, b, 4) && vp_eq(c, d, 16), "zzSub on 16 octets: 64-bit build == 32-bit build");
	VP_ASSERT(sgn(wwCmp(a, b, 2)) == sgn(wwCmp__B(a, b, 4)), "wwCmp on 16 octets: both builds equal");
	zzNeg(c, a, 2); zzNeg__B(d, a, 4);
	VP_ASSERT(vp_eq(c, d, 16), "zzNeg on 16 octets: both builds equal");
	VP_ASSERT(wwBitSize(a, 2) == wwBitSize__B(a, 4), "wwBitSize on 16 octets: both builds equal");
}

/* bash-f: 64-bit unit vs 32-bit unit of the same entry point */
void bashF(octet block[192], void* stack);  void bashF__B(octet block[192], void* stack);
size_t bashF_deep(void); size_t bashF_deep__B(void);
void h_bashf(void)
{
	VP_INPUT();
	unsigned long long x[24], y[24]; unsigned i; int same = 1;
	for (i = 0; i < 24; ++i) x[i] = y[i] = in.s[i];
	bashF((octet*)x, vp_alloc(bashF_deep())); bashF__B((octet*)y, vp_alloc(bashF_deep__B()));
	for (i = 0; i < 24; ++i) if (x[i] != y[i]) same = 0;
	VP_WITNESS();
	VP_ASSERT(same, "bashF: BASH_64 unit == BASH_32 unit for every state");
}

/* zz_add.c: default (regular) build vs -DSAFE_FAST build of the same file (the #ifdef SAFE_FAST loop bodies) */
unsigned long long zzSubW__F(void* b, const void* a, size_t n, unsigned long long w); unsigned long long zzSubW(void* b, const void* a, size_t n, unsigned long long w);
unsigned long long zzAddW__F(void* b, const void* a, size_t n, unsigned long long w); unsigned long long zzAddW(void* b, const void* a, size_t n, unsigned long long w);
unsigned long long zzSubW2__F(void* a, size_t n, unsigned long long w); unsigned long long zzSubW2(void* a, size_t n, unsigned long long w);
unsigned long long zzAddW2__F(void* a, size_t n, unsigned long long w); unsigned long long zzAddW2(void* a, size_t n, unsigned long long w);
unsigned long long zzAdd__F(void* c, const void* a, const void* b, size_t n); unsigned long long zzSub__F(void* c, const void* a, const void* b, size_t n);
unsigned long long zzAdd2__F(void* b, const void* a, size_t n); unsigned long long zzAdd2(void* b, const void* a, size_t n);
unsigned long long zzSub2__F(void* b, const void* a, size_t n); unsigned long long zzSub2(void* b, const void* a, size_t n);
void h_safefast(void)
{
	VP_INPUT();
	unsigned long long a[2], b[2], c[2], d[2], w; size_t n = in.count;
	VP_ASSUME(n <= 2);
	memcpy(a, in.a, 16); memcpy(b, in.b, 16); memcpy(&w, in.w, 8);
	VP_WITNESS();
	VP_ASSERT(zzAdd(c, a, b, n) == zzAdd__F(d, a, b, n) && vp_eq(c, d, 8 * n), "zzAdd: regular build == SAFE_FAST build");
	VP_ASSERT(zzSub(c, a, b, n) == zzSub__F(d, a, b, n) && vp_eq(c, d, 8 * n), "zzSub: regular build == SAFE_FAST build");
	VP_ASSERT(zzAddW(c, a, n, w) == zzAddW__F(d, a, n, w) && vp_eq(c, d, 8 * n), "zzAddW: regular build == SAFE_FAST build");
	VP_ASSERT(zzSubW(c, a, n, w) == zzSubW__F(d, a, n, w) && vp_eq(c, d, 8 * n), "zzSubW: regular build == SAFE_FAST build");
	memcpy(c, a, 16); memcpy(d, a, 16);
	VP_ASSERT(zzAddW2(c, n, w) == zzAddW2__F(d, n, w) && vp_eq(c, d, 8 * n), "zzAddW2: regular build == SAFE_FAST build");
	memcpy(c, a, 16); memcpy(d, a, 16);
	VP_ASSERT(zzSubW2(c, n, w) == zzSubW2__F(d, n, w) && vp_eq(c, d, 8 * n), "zzSubW2: regular build == SAFE_FAST build");
	memcpy(c, b, 16); memcpy(d, b, 16);
	VP_ASSERT(zzAdd2(c, a, n) == zzAdd2__F(d, a, n) && vp_eq(c, d, 8 * n), "zzAdd2: regular build == SAFE_FAST build");
	memcpy(c, b, 16); memcpy(d, b, 16);
	VP_ASSERT(zzSub2(c, a, n) == zzSub2__F(d, a, n) && vp_eq(c, d, 8 * n), "zzSub2: regular build == SAFE_FAST build");
}
