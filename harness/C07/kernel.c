/* C07 family K: the REAL kernels that families A/C/D replace by arbitrary functions, run with exact-size
 * heap buffers: belt block cipher (all six entry points), key expansion, belt-compress, bash-f, belt-WBL on the
 * real cipher. All data symbolic; table look-ups indexed by data are bounds-checked by CBMC. */
#include "vp.h"
#include <bee2/core/mem.h>
#include <bee2/crypto/belt.h>
#include <bee2/crypto/bash.h>

struct vp_in { octet blk[192]; octet key[32]; octet x[32]; octet buf[48]; };
#define DUP(src, n) ((octet*)vp_dup((src), (n)))
#define NEW(n) ((octet*)vp_alloc(n))

void h_block(void)
{
	VP_INPUT();
	u32* key = (u32*)DUP(in.key, 32); octet* b = DUP(in.blk, 16); u32* w = (u32*)DUP(in.blk + 16, 16);
	u32* a1 = (u32*)DUP(in.blk + 32, 4); u32* a2 = (u32*)DUP(in.blk + 36, 4);
	u32* a3 = (u32*)DUP(in.blk + 40, 4); u32* a4 = (u32*)DUP(in.blk + 44, 4);
	beltBlockEncr(b, key); beltBlockDecr(b, key);
	beltBlockEncr2(w, key); beltBlockDecr2(w, key);
	beltBlockEncr3(a1, a2, a3, a4, key); beltBlockDecr3(a1, a2, a3, a4, key);
	VP_WITNESS();
}

void h_keyexpand(void)
{
	VP_INPUT();
	size_t len;
	for (len = 16; len <= 32; len += 8)
	{
		octet* k = DUP(in.key, len); octet* ko = NEW(32); u32* kw = (u32*)NEW(32);
		beltKeyExpand(ko, k, len);
		beltKeyExpand2(kw, k, len);
	}
	VP_ASSERT(memIsValid(beltH(), 256), "beltH");
	VP_WITNESS();
}

void h_compr(void)
{
	VP_INPUT();
	u32* h = (u32*)DUP(in.key, 32); u32* X = (u32*)DUP(in.x, 32); u32* s = (u32*)DUP(in.blk, 16);
	void* stack = NEW(beltCompr_deep());
	beltCompr(h, X, stack);
	beltCompr2(s, h, X, stack);
	VP_WITNESS();
}

void h_bashF(void)
{
	VP_INPUT();
	octet* b = DUP(in.blk, 192); void* stack = NEW(bashF_deep());
	bashF(b, stack);
	VP_WITNESS();
}

/* belt-WBL on the real cipher: 33 octets (base variant, ragged), StepD2 with a 17-octet first part */
void h_wbl(void)
{
	VP_INPUT();
	void* st = NEW(beltWBL_keep()); octet* key = DUP(in.key, 32);
	octet* b = DUP(in.buf, 33); octet* p1 = DUP(in.buf, 17); octet* p2 = DUP(in.buf + 17, 16);
	beltWBLStart(st, key, 32);
	beltWBLStepE(b, 33, st);
	beltWBLStepD2(p1, p2, 33, st);
	VP_WITNESS();
}
