/* C07 family C (NDEBUG off): the library's debug self-checks are live.
 *  - utilAssert (src/core/util.c, body removed) -> a firing ASSERT is an ordinary failed property;
 *  - memIsDisjoint / memIsSameOrDisjoint / memIsDisjoint2 (src/core/mem.c, bodies removed; memIsDisjoint3/4 and
 *    the ww macros are built on them and stay real) -> object-aware models. The library compares raw addresses of
 *    different objects, which CBMC leaves unconstrained (any order of two objects is possible, so the comparison
 *    could be made to fail for every pair of buffers). Two buffers in DIFFERENT objects are disjoint by
 *    construction of the memory model; inside ONE object the library's own offset comparison is evaluated.
 * CBMC only (Ob.stub_files); the native replay links the real functions (utilAssert aborts = reproduced). */
#include <bee2/core/mem.h>
#include <bee2/core/util.h>

void utilAssert(int b, const char* file, int line)
{
	__CPROVER_assert(b, "VP_PROP library ASSERT fired");
	/* real behaviour: abort() - nothing after a failed self-check is executed */
	__CPROVER_assume(b);
}

static bool_t vp_disjoint(const void* buf1, size_t count1, const void* buf2, size_t count2)
{
	size_t o1, o2;
	if (count1 == 0 || count2 == 0)
		return TRUE;
	__CPROVER_assert(buf1 != 0 && buf2 != 0, "VP_PROP library ASSERT fired (memIsValid inside memIsDisjoint*)");
	if (__CPROVER_POINTER_OBJECT(buf1) != __CPROVER_POINTER_OBJECT(buf2))
		return TRUE;
	o1 = __CPROVER_POINTER_OFFSET(buf1); o2 = __CPROVER_POINTER_OFFSET(buf2);
	return o1 + count1 <= o2 || o1 >= o2 + count2;
}

bool_t memIsDisjoint(const void* buf1, const void* buf2, size_t count)
{
	return vp_disjoint(buf1, count, buf2, count);
}

bool_t memIsSameOrDisjoint(const void* buf1, const void* buf2, size_t count)
{
	return buf1 == buf2 || vp_disjoint(buf1, count, buf2, count);
}

bool_t memIsDisjoint2(const void* buf1, size_t count1, const void* buf2, size_t count2)
{
	return vp_disjoint(buf1, count1, buf2, count2);
}
