/* C07 family D: high-level functions that allocate their own state.
 * Profile BEE2_VERIF_BLOB_EXACT + real src/core/blob.c: the blob is a heap object of exactly
 * size + sizeof(size_t) octets, so an under-computed _keep()/_deep() is an out-of-object access.
 * Caller buffers are exact-size heap objects, lengths concrete (instances), data symbolic.
 * vp_body(pin, klen, n, m); one function group per compilation (-DH_xxx). */
#include "vp.h"
#include <bee2/core/mem.h>
#include <bee2/core/err.h>
#include <bee2/core/tm.h>
#include <bee2/crypto/belt.h>
#include <bee2/crypto/bash.h>
#include <bee2/crypto/brng.h>
#include <bee2/crypto/botp.h>

#ifndef MAXN
#define MAXN 96
#endif
struct vp_in {
	octet d1[MAXN]; octet d2[MAXN];
	octet key[64]; octet iv[80]; octet mac[32]; octet hdr[16]; octet level[12];
	unsigned short w[40];
	unsigned long long t;
};
#define DUP(src, n) ((octet*)vp_dup((src), (n)))
#define NEW(n) ((octet*)vp_alloc(n))
#define OK(e) VP_ASSERT((e) == ERR_OK, "admissible input is accepted (ERR_OK)")

#if defined(H_BLOCKMODES)
/* ECB / CBC (n >= 16), CFB / CTR (m arbitrary), BDE / SDE (multiples of 16, SDE >= 32: n16 = n rounded) */
static void vp_body(struct vp_in* pin, size_t klen, size_t n, size_t m)
{
	octet* key = DUP(pin->key, klen); octet* iv = DUP(pin->iv, 16);
	octet* s1 = DUP(pin->d1, n); octet* o1 = NEW(n); octet* s2 = DUP(pin->d2, m); octet* o2 = NEW(m);
	OK(beltECBEncr(o1, s1, n, key, klen)); OK(beltECBDecr(o1, s1, n, key, klen));
	OK(beltCBCEncr(o1, s1, n, key, klen, iv)); OK(beltCBCDecr(o1, s1, n, key, klen, iv));
	OK(beltCFBEncr(o2, s2, m, key, klen, iv)); OK(beltCFBDecr(o2, s2, m, key, klen, iv));
	OK(beltCTR(o2, s2, m, key, klen, iv));
	VP_WITNESS();
}
#elif defined(H_DISK)
static void vp_body(struct vp_in* pin, size_t klen, size_t n, size_t m)
{
	octet* key = DUP(pin->key, klen); octet* iv = DUP(pin->iv, 16);
	octet* s1 = DUP(pin->d1, n); octet* o1 = NEW(n); octet* s2 = DUP(pin->d2, m); octet* o2 = NEW(m);
	OK(beltBDEEncr(o1, s1, n, key, klen, iv)); OK(beltBDEDecr(o1, s1, n, key, klen, iv));
	OK(beltSDEEncr(o2, s2, m, key, klen, iv)); OK(beltSDEDecr(o2, s2, m, key, klen, iv));
	VP_WITNESS();
}
#elif defined(H_AUTH)
/* beltMAC, beltHash, beltHMAC, beltKRP, beltPBKDF2 (2 iterations) */
static void vp_body(struct vp_in* pin, size_t klen, size_t n, size_t m)
{
	octet* key = DUP(pin->key, klen); octet* s1 = DUP(pin->d1, n); octet* s2 = DUP(pin->d2, m);
	octet* mac = NEW(8); octet* h = NEW(32); octet* k2 = NEW(16);
	octet* level = DUP(pin->level, 12); octet* hdr = DUP(pin->hdr, 16);
	OK(beltMAC(mac, s1, n, key, klen));
	OK(beltHash(h, s2, m));
	OK(beltHMAC(h, s1, n, s2, m));            /* HMAC key of arbitrary length m */
	OK(beltKRP(k2, 16, key, klen, level, hdr));
	OK(beltPBKDF2(h, s1, n, 2, s2, m));
	VP_WITNESS();
}
#elif defined(H_AEAD)
static void vp_body(struct vp_in* pin, size_t klen, size_t n, size_t m)
{
	octet* key = DUP(pin->key, klen); octet* iv = DUP(pin->iv, 16);
	octet* crit = DUP(pin->d1, n); octet* pub = DUP(pin->d2, m); octet* out = NEW(n);
	octet* mac = NEW(8); octet* v = DUP(pin->mac, 8); err_t e;
	OK(beltDWPWrap(out, mac, crit, n, pub, m, key, klen, iv));
	e = beltDWPUnwrap(out, crit, n, pub, m, v, key, klen, iv);
	VP_ASSERT(e == ERR_OK || e == ERR_BAD_MAC, "DWPUnwrap: ERR_OK or ERR_BAD_MAC");
	e = beltDWPUnwrap(crit, out, n, pub, m, mac, key, klen, iv);
	OK(beltCHEWrap(out, mac, crit, n, pub, m, key, klen, iv));
	e = beltCHEUnwrap(out, crit, n, pub, m, v, key, klen, iv);
	VP_ASSERT(e == ERR_OK || e == ERR_BAD_MAC, "CHEUnwrap: ERR_OK or ERR_BAD_MAC");
	e = beltCHEUnwrap(crit, out, n, pub, m, mac, key, klen, iv);
	VP_WITNESS();
}
#elif defined(H_KWP)
/* n >= 16: key to wrap; with header (m != 0) or the null header (m == 0) */
static void vp_body(struct vp_in* pin, size_t klen, size_t n, size_t m)
{
	octet* key = DUP(pin->key, klen); octet* hdr = m ? DUP(pin->hdr, 16) : 0;
	octet* src = DUP(pin->d1, n); octet* tok = NEW(n + 16); octet* tok2 = DUP(pin->d2, n + 16); octet* out = NEW(n);
	err_t e;
	OK(beltKWPWrap(tok, src, n, hdr, key, klen));
	e = beltKWPUnwrap(out, tok, n + 16, hdr, key, klen);
	e = beltKWPUnwrap(out, tok2, n + 16, hdr, key, klen);
	VP_ASSERT(e == ERR_OK || e == ERR_BAD_KEYTOKEN, "KWPUnwrap: ERR_OK or ERR_BAD_KEYTOKEN");
	VP_WITNESS();
}
#elif defined(H_FMT)
/* n = mod, m = count */
static void vp_body(struct vp_in* pin, size_t klen, size_t n, size_t m)
{
	u32 mod = (u32)n; size_t count = m, i;
	octet* key = DUP(pin->key, klen); octet* iv = DUP(pin->iv, 16);
	u16* src = (u16*)NEW(2 * count); u16* dst = (u16*)NEW(2 * count);
	for (i = 0; i < count; ++i)
	{
		u16 c = pin->w[i % 40];
		if (mod < 65536) VP_ASSUME(c < mod);
		src[i] = c;
	}
	OK(beltFMTEncr(dst, mod, src, count, key, klen, iv));
	OK(beltFMTDecr(src, mod, dst, count, key, klen, 0));
	VP_WITNESS();
}
#elif defined(H_BASH)
/* klen = level */
static void vp_body(struct vp_in* pin, size_t klen, size_t n, size_t m)
{
	octet* s1 = DUP(pin->d1, n); octet* h = NEW(klen / 4);
	OK(bashHash(h, klen, s1, n));
	VP_WITNESS();
}
#elif defined(H_BRNG)
static void vp_body(struct vp_in* pin, size_t klen, size_t n, size_t m)
{
	octet* key = DUP(pin->key, 32); octet* iv = DUP(pin->iv, 32); octet* b1 = DUP(pin->d1, n);
	octet* hk = DUP(pin->key, klen); octet* hiv = DUP(pin->iv, m); octet* b2 = NEW(n);
	OK(brngCTRRand(b1, n, key, iv));
	OK(brngHMACRand(b2, n, hk, klen, hiv, m));
	VP_WITNESS();
}
#elif defined(H_BOTP)
/* n = digit */
static void vp_body(struct vp_in* pin, size_t klen, size_t n, size_t m)
{
	static const char suite0[] = "OCRA-1:HOTP-HBELT-8:C-QN08-PSHA1-S004-T5S";
	octet* key = DUP(pin->key, klen); octet* ctr = DUP(pin->iv, 8);
	char* otp = (char*)NEW(n + 1); char* v = (char*)DUP(pin->d1, n + 1);
	char* suite = (char*)DUP(suite0, sizeof(suite0)); char* otp8 = (char*)NEW(9);
	octet* q = DUP(pin->d2, 8); octet* p = DUP(pin->d2 + 8, 20); octet* s = DUP(pin->d2 + 28, 4);
	tm_time_t t = (tm_time_t)pin->t; size_t i; err_t e;
	VP_ASSUME(t != TIME_ERR);
	for (i = 0; i < n; ++i) VP_ASSUME(v[i] != 0);
	v[n] = 0;
	OK(botpHOTPRand(otp, n, key, klen, ctr));
	e = botpHOTPVerify(v, key, klen, ctr);
	VP_ASSERT(e == ERR_OK || e == ERR_BAD_PWD, "HOTPVerify: ERR_OK or ERR_BAD_PWD");
	OK(botpTOTPRand(otp, n, key, klen, t));
	e = botpTOTPVerify(v, key, klen, t);
	VP_ASSERT(e == ERR_OK || e == ERR_BAD_PWD, "TOTPVerify: ERR_OK or ERR_BAD_PWD");
	OK(botpOCRARand(otp8, suite, key, klen, q, 8, ctr, p, s, t));
	VP_WITNESS();
}
#else
#error "select a group with -DH_xxx"
#endif
