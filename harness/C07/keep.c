/* C07 family A: state layouts (_keep).
 * For every Start/Step/Get bundle the state is a heap object of EXACTLY X_keep() octets, every caller
 * buffer (key, iv, data, mac, header, ...) is its own heap object of EXACTLY the documented size, lengths
 * are concrete (instances of the driver), all octets symbolic. CBMC's bounds/pointer checks are the
 * property: an access past a buffer, past the state or into a dead object fails.
 * One bundle per compilation, selected by -DB_xxx; vp_body(pin, klen, n, m):
 *   klen  key length (or level for bash), n / m  lengths of the first / second data fragment.
 * With -DVP_DBG (NDEBUG off profile) the library's own ASSERTs are live: utilAssert is replaced by
 * harness/C07/dbg_stubs.c and a firing ASSERT is a failed property. */
#include "vp.h"
#include <bee2/core/mem.h>
#include <bee2/core/tm.h>
#include <bee2/crypto/belt.h>
#include <bee2/crypto/bash.h>
#include <bee2/crypto/brng.h>
#include <bee2/crypto/botp.h>

#ifndef MAXN
#define MAXN 96
#endif

struct vp_in {
	octet d1[MAXN]; octet d2[MAXN];
	octet key[64]; octet iv[80]; octet mac[32]; octet hdr[16]; octet level[12];
	unsigned short w[40];
	unsigned long long t;
	unsigned char sel;
};

#define DUP(src, n) ((octet*)vp_dup((src), (n)))
#define NEW(n) ((octet*)vp_alloc(n))
/* sanity switch (never set by props/C07.py): -DVP_SHRINK=1 under-allocates every state by one octet; every bundle must then FAIL */
#ifndef VP_SHRINK
#define VP_SHRINK 0
#endif
/* the state object: exactly `keep` octets. CBMC types a heap object by the sizeof in the malloc argument; a
 * word-typed object makes symbolic execution of the word-wise state accesses ~10x cheaper than an octet array
 * (same object size, same bounds). Native replay: plain malloc(keep). */
static void* vp_state(size_t keep)
{
	void* p;
#ifdef VP_STATE_BYTES
	/* bundles whose sub-states sit at odd offsets (botp: octet stack[] at offset 66/58): an octet-typed object */
	if (1) p = malloc(keep); else
#endif
	if (keep % 8 == 0) p = malloc(sizeof(unsigned long long) * (keep / 8));
	else if (keep % 4 == 0) p = malloc(sizeof(unsigned) * (keep / 4));
	else p = malloc(keep);
	VP_MALLOC_OK(p);
	return p;
}
#define STATE(keep) vp_state((keep) - VP_SHRINK)

/* ------------------------------------------------------------------ belt: block modes */
#if defined(B_ECB)
static void vp_body(struct vp_in* pin, size_t klen, size_t n, size_t m)
{
	void* st = STATE(beltECB_keep()); octet* key = DUP(pin->key, klen);
	octet* b1 = DUP(pin->d1, n); octet* b2 = DUP(pin->d2, m);
	beltECBStart(st, key, klen);
	beltECBStepE(b1, n, st); beltECBStepE(b2, m, st);
	beltECBStepD(b1, n, st); beltECBStepD(b2, m, st);
	VP_WITNESS();
}
#elif defined(B_CBC)
static void vp_body(struct vp_in* pin, size_t klen, size_t n, size_t m)
{
	void* st = STATE(beltCBC_keep()); octet* key = DUP(pin->key, klen); octet* iv = DUP(pin->iv, 16);
	octet* b1 = DUP(pin->d1, n); octet* b2 = DUP(pin->d2, m);
	beltCBCStart(st, key, klen, iv);
	beltCBCStepE(b1, n, st); beltCBCStepE(b2, m, st);
	beltCBCStart(st, key, klen, iv);
	beltCBCStepD(b1, n, st); beltCBCStepD(b2, m, st);
	VP_WITNESS();
}
#elif defined(B_CFB)
static void vp_body(struct vp_in* pin, size_t klen, size_t n, size_t m)
{
	void* st = STATE(beltCFB_keep()); octet* key = DUP(pin->key, klen); octet* iv = DUP(pin->iv, 16);
	octet* b1 = DUP(pin->d1, n); octet* b2 = DUP(pin->d2, m);
	beltCFBStart(st, key, klen, iv);
	beltCFBStepE(b1, n, st); beltCFBStepE(b2, m, st);
	beltCFBStart(st, key, klen, iv);
	beltCFBStepD(b1, n, st); beltCFBStepD(b2, m, st);
	VP_WITNESS();
}
#elif defined(B_CTR)
static void vp_body(struct vp_in* pin, size_t klen, size_t n, size_t m)
{
	void* st = STATE(beltCTR_keep()); octet* key = DUP(pin->key, klen); octet* iv = DUP(pin->iv, 16);
	octet* b1 = DUP(pin->d1, n); octet* b2 = DUP(pin->d2, m);
	beltCTRStart(st, key, klen, iv);
	beltCTRStepE(b1, n, st); beltCTRStepE(b2, m, st); beltCTRStepE(b1, n, st);
	VP_WITNESS();
}
#elif defined(B_BDE)
static void vp_body(struct vp_in* pin, size_t klen, size_t n, size_t m)
{
	void* st = STATE(beltBDE_keep()); octet* key = DUP(pin->key, klen); octet* iv = DUP(pin->iv, 16);
	octet* b1 = DUP(pin->d1, n); octet* b2 = DUP(pin->d2, m);
	beltBDEStart(st, key, klen, iv);
	beltBDEStepE(b1, n, st); beltBDEStepE(b2, m, st);
	beltBDEStart(st, key, klen, iv);
	beltBDEStepD(b1, n, st); beltBDEStepD(b2, m, st);
	VP_WITNESS();
}
#elif defined(B_SDE)
static void vp_body(struct vp_in* pin, size_t klen, size_t n, size_t m)
{
	void* st = STATE(beltSDE_keep()); octet* key = DUP(pin->key, klen); octet* iv = DUP(pin->iv, 16);
	octet* b1 = DUP(pin->d1, n); octet* b2 = DUP(pin->d2, m);
	beltSDEStart(st, key, klen);
	beltSDEStepE(b1, n, iv, st); beltSDEStepE(b2, m, iv, st);
	beltSDEStepD(b1, n, iv, st); beltSDEStepD(b2, m, iv, st);
	VP_WITNESS();
}
#elif defined(B_WBL)
/* n: length for StepE/StepD/StepR; m: length for StepD2 (buf1 = m - 16 octets, buf2 = 16 octets) */
static void vp_body(struct vp_in* pin, size_t klen, size_t n, size_t m)
{
	void* st = STATE(beltWBL_keep()); octet* key = DUP(pin->key, klen);
	octet* b1 = DUP(pin->d1, n); octet* p1 = DUP(pin->d2, m - 16); octet* p2 = DUP(pin->d2 + m - 16, 16);
	beltWBLStart(st, key, klen);
	beltWBLStepE(b1, n, st);
	beltWBLStepD(b1, n, st);
	beltWBLStepD2(p1, p2, m, st);
#ifndef WBL_NO_R
	beltWBLStepE(b1, n, st);      /* leaves round == 2n: the documented state in which StepR continues */
	beltWBLStepR(b1, n, st);
#endif
	VP_WITNESS();
}
/* ------------------------------------------------------------------ belt: MAC / hash / HMAC / KRP */
#elif defined(B_MAC)
static void vp_body(struct vp_in* pin, size_t klen, size_t n, size_t m)
{
	void* st = STATE(beltMAC_keep()); octet* key = DUP(pin->key, klen);
	octet* b1 = DUP(pin->d1, n); octet* b2 = DUP(pin->d2, m);
	octet* mac = NEW(8); octet* mac2 = NEW(m % 9); octet* v = DUP(pin->mac, 8); octet* v2 = DUP(pin->mac, n % 9);
	beltMACStart(st, key, klen);
	beltMACStepA(b1, n, st);
	beltMACStepG(mac, st);
	beltMACStepA(b2, m, st);
	beltMACStepG2(mac2, m % 9, st);
	(void)beltMACStepV(v, st);
	(void)beltMACStepV2(v2, n % 9, st);
	beltMACStepA(b1, n, st);
	beltMACStepG(mac, st);
	VP_WITNESS();
}
#elif defined(B_HASH)
static void vp_body(struct vp_in* pin, size_t klen, size_t n, size_t m)
{
	void* st = STATE(beltHash_keep());
	octet* b1 = DUP(pin->d1, n); octet* b2 = DUP(pin->d2, m);
	octet* h = NEW(32); octet* h2 = NEW(klen); octet* v = DUP(pin->mac, 32); octet* v2 = DUP(pin->mac, klen);
	beltHashStart(st);
	beltHashStepH(b1, n, st);
	beltHashStepG(h, st);
	beltHashStepH(b2, m, st);
	beltHashStepG2(h2, klen, st);          /* klen doubles as hash_len <= 32 */
	(void)beltHashStepV(v, st);
	(void)beltHashStepV2(v2, klen, st);
	VP_WITNESS();
}
#elif defined(B_HMAC)
static void vp_body(struct vp_in* pin, size_t klen, size_t n, size_t m)
{
	void* st = STATE(beltHMAC_keep()); octet* key = DUP(pin->key, klen);
	octet* b1 = DUP(pin->d1, n); octet* b2 = DUP(pin->d2, m);
	octet* h = NEW(32); octet* h2 = NEW(m % 33); octet* v = DUP(pin->mac, 32); octet* v2 = DUP(pin->mac, n % 33);
	beltHMACStart(st, key, klen);
	beltHMACStepA(b1, n, st);
	beltHMACStepG(h, st);
	beltHMACStepA(b2, m, st);
	beltHMACStepG2(h2, m % 33, st);
	(void)beltHMACStepV(v, st);
	(void)beltHMACStepV2(v2, n % 33, st);
	VP_WITNESS();
}
#elif defined(B_KRP)
/* n: length of the derived key, m unused */
static void vp_body(struct vp_in* pin, size_t klen, size_t n, size_t m)
{
	void* st = STATE(beltKRP_keep()); octet* key = DUP(pin->key, klen);
	octet* level = DUP(pin->level, 12); octet* hdr = DUP(pin->hdr, 16); octet* out = NEW(n);
	beltKRPStart(st, key, klen, level);
	beltKRPStepG(out, n, hdr, st);
	beltKRPStepG(out, n, hdr, st);
	VP_WITNESS();
}
/* ------------------------------------------------------------------ belt: AEAD */
#elif defined(B_DWP) || defined(B_CHE)
#ifdef B_DWP
#define AE(f) beltDWP##f
#else
#define AE(f) beltCHE##f
#endif
/* n: public data (StepI, twice: n then m % 16 more), m: critical data */
static void vp_body(struct vp_in* pin, size_t klen, size_t n, size_t m)
{
	void* st = STATE(AE(_keep)()); octet* key = DUP(pin->key, klen); octet* iv = DUP(pin->iv, 16);
	octet* pub = DUP(pin->d1, n); octet* pub2 = DUP(pin->d1, m % 16); octet* crit = DUP(pin->d2, m);
	octet* crit2 = DUP(pin->d2, n);
	octet* mac = NEW(8); octet* v = DUP(pin->mac, 8);
	/* wrap */
	AE(Start)(st, key, klen, iv);
	AE(StepI)(pub, n, st);
	AE(StepI)(pub2, m % 16, st);
	AE(StepE)(crit, m, st);
	AE(StepA)(crit, m, st);
	AE(StepE)(crit2, n, st);
	AE(StepA)(crit2, n, st);
	AE(StepG)(mac, st);
	/* unwrap */
	AE(Start)(st, key, klen, iv);
	AE(StepI)(pub, n, st);
	AE(StepA)(crit, m, st);
	(void)AE(StepV)(v, st);
	AE(StepD)(crit, m, st);
	VP_WITNESS();
}
/* ------------------------------------------------------------------ belt: FMT (keep depends on mod, count) */
#elif defined(B_FMT)
/* klen = key length, n = mod, m = count; symbols are reduced below mod as belt.h expects */
static void vp_body(struct vp_in* pin, size_t klen, size_t n, size_t m)
{
	u32 mod = (u32)n; size_t count = m, i;
	void* st = STATE(beltFMT_keep(mod, count)); octet* key = DUP(pin->key, klen); octet* iv = DUP(pin->iv, 16);
	u16* buf = (u16*)NEW(2 * count);
	for (i = 0; i < count; ++i)
	{
		u16 c = pin->w[i % 40];
		if (mod < 65536) VP_ASSUME(c < mod);
		buf[i] = c;
	}
	beltFMTStart(st, mod, count, key, klen);
	beltFMTStepE(buf, iv, st);
#ifndef FMT_E_ONLY
	beltFMTStepD(buf, 0, st);
#endif
	VP_WITNESS();
}
/* ------------------------------------------------------------------ bash */
#elif defined(B_BASHHASH)
/* klen = level l */
static void vp_body(struct vp_in* pin, size_t klen, size_t n, size_t m)
{
	size_t l = klen;
	void* st = STATE(bashHash_keep());
	octet* b1 = DUP(pin->d1, n); octet* b2 = DUP(pin->d2, m);
	octet* h = NEW(l / 4); octet* h2 = NEW(m % (l / 4 + 1)); octet* v = DUP(pin->key, l / 4);
	bashHashStart(st, l);
	bashHashStepH(b1, n, st);
	bashHashStepG(h, l / 4, st);
	bashHashStepH(b2, m, st);
	bashHashStepG(h2, m % (l / 4 + 1), st);
	(void)bashHashStepV(v, l / 4, st);
	VP_WITNESS();
}
#elif defined(B_BASHPRG)
/* klen = level l; capacity d and the key/announcement lengths come from -D (concrete) */
#ifndef PRG_D
#define PRG_D 1
#endif
#ifndef PRG_ANN
#define PRG_ANN 4
#endif
#ifndef PRG_KEY
#define PRG_KEY 32
#endif
static void vp_body(struct vp_in* pin, size_t klen, size_t n, size_t m)
{
	size_t l = klen;
	void* st = STATE(bashPrg_keep());
	octet* ann = DUP(pin->iv, PRG_ANN); octet* key = DUP(pin->key, PRG_KEY);
	octet* b1 = DUP(pin->d1, n); octet* b2 = DUP(pin->d2, m); octet* o1 = NEW(n); octet* o2 = NEW(m);
	bashPrgStart(st, l, PRG_D, ann, PRG_ANN, key, PRG_KEY);
	bashPrgAbsorbStart(st); bashPrgAbsorbStep(b1, n, st); bashPrgAbsorbStep(b2, m, st);
	bashPrgAbsorb(b2, m, st);
	bashPrgSqueezeStart(st); bashPrgSqueezeStep(o1, n, st); bashPrgSqueezeStep(o2, m, st);
	bashPrgSqueeze(o1, n, st);
#if PRG_KEY > 0
	bashPrgEncrStart(st); bashPrgEncrStep(b1, n, st); bashPrgEncrStep(b2, m, st);
	bashPrgEncr(b2, m, st);
	bashPrgDecrStart(st); bashPrgDecrStep(b1, n, st); bashPrgDecrStep(b2, m, st);
	bashPrgDecr(b1, n, st);
#endif
	bashPrgRatchet(st);
	bashPrgRestart(ann, PRG_ANN, key, PRG_KEY, st);
	bashPrgSqueeze(o2, m, st);
	VP_WITNESS();
}
/* ------------------------------------------------------------------ brng */
#elif defined(B_BRNGCTR)
static void vp_body(struct vp_in* pin, size_t klen, size_t n, size_t m)
{
	void* st = STATE(brngCTR_keep()); octet* key = DUP(pin->key, 32); octet* iv = DUP(pin->iv, 32);
	octet* b1 = DUP(pin->d1, n); octet* b2 = DUP(pin->d2, m); octet* ivo = NEW(32);
	brngCTRStart(st, key, klen ? iv : 0);      /* klen == 0: the documented null synchro */
	brngCTRStepR(b1, n, st);
	brngCTRStepR(b2, m, st);
	brngCTRStepG(ivo, st);
	VP_WITNESS();
}
#elif defined(B_BRNGHMAC)
/* klen = key length; iv length from -DIV_LEN (<= 64 is copied into the state, > 64 referenced) */
#ifndef IV_LEN
#define IV_LEN 16
#endif
static void vp_body(struct vp_in* pin, size_t klen, size_t n, size_t m)
{
	void* st = STATE(brngHMAC_keep()); octet* key = DUP(pin->key, klen); octet* iv = DUP(pin->iv, IV_LEN);
	octet* b1 = NEW(n); octet* b2 = NEW(m);
	brngHMACStart(st, key, klen, iv, IV_LEN);
#if IV_LEN <= 64
	free(iv);        /* brng.h: for iv_len <= 64 the contents of iv are saved in the state */
#endif
	brngHMACStepR(b1, n, st);
	brngHMACStepR(b2, m, st);
	VP_WITNESS();
}
/* ------------------------------------------------------------------ botp */
#elif defined(B_HOTP)
/* n = digit */
static void vp_body(struct vp_in* pin, size_t klen, size_t n, size_t m)
{
	void* st = STATE(botpHOTP_keep()); octet* key = DUP(pin->key, klen); octet* ctr = DUP(pin->iv, 8);
	char* otp = (char*)NEW(n + 1); char* v = (char*)DUP(pin->d1, n + 1); octet* co = NEW(8);
	v[n] = 0;
	botpHOTPStart(st, n, key, klen);
	botpHOTPStepS(st, ctr);
	botpHOTPStepR(otp, st);
	(void)botpHOTPStepV(v, st);
	(void)botpHOTPStepV(otp, st);
	botpHOTPStepG(co, st);
	VP_WITNESS();
}
#elif defined(B_TOTP)
static void vp_body(struct vp_in* pin, size_t klen, size_t n, size_t m)
{
	void* st = STATE(botpTOTP_keep()); octet* key = DUP(pin->key, klen);
	char* otp = (char*)NEW(n + 1); char* v = (char*)DUP(pin->d1, n + 1);
	tm_time_t t = (tm_time_t)pin->t;
	VP_ASSUME(t != TIME_ERR);
	v[n] = 0;
	botpTOTPStart(st, n, key, klen);
	botpTOTPStepR(otp, t, st);
	(void)botpTOTPStepV(v, t, st);
	VP_WITNESS();
}
#elif defined(B_OCRA)
/* suite string, digit, lengths of p and s from -D; n = q_len */
#ifndef OCRA_SUITE
#define OCRA_SUITE "OCRA-1:HOTP-HBELT-6:C-QN08-PHBELT-S016-T1M"
#define OCRA_DIGIT 6
#define OCRA_P 32
#define OCRA_S 16
#endif
static void vp_body(struct vp_in* pin, size_t klen, size_t n, size_t m)
{
	static const char suite0[] = OCRA_SUITE;
	void* st = STATE(botpOCRA_keep()); octet* key = DUP(pin->key, klen); octet* ctr = DUP(pin->iv, 8);
	char* suite = (char*)DUP(suite0, sizeof(suite0));
	octet* q = DUP(pin->d1, n); octet* co = NEW(8);
#ifdef OCRA_ADJACENT
	/* admissible caller layout: s and p are consecutive members of one caller object */
	octet* sp = DUP(pin->d2, OCRA_S + OCRA_P); octet* s = sp; octet* p = sp + OCRA_S;
#else
	octet* p = DUP(pin->d2, OCRA_P); octet* s = DUP(pin->d2 + 64, OCRA_S);
#endif
	char* otp = (char*)NEW(OCRA_DIGIT + 1); char* v = (char*)DUP(pin->d1, OCRA_DIGIT + 1);
	tm_time_t t = (tm_time_t)pin->t;
	bool_t ok;
	VP_ASSUME(t != TIME_ERR);
	v[OCRA_DIGIT] = 0;
	ok = botpOCRAStart(st, suite, key, klen);
	VP_ASSERT(ok, "the suite of the instance is well-formed");
	if (ok)
	{
		botpOCRAStepS(st, ctr, p, s);
		botpOCRAStepR(otp, q, n, t, st);
		(void)botpOCRAStepV(v, q, n, t, st);
		botpOCRAStepG(co, st);
	}
	VP_WITNESS();
}
#else
#error "select a bundle with -DB_xxx"
#endif
