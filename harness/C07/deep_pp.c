/* C07, family B: stack depths of the pp layer (binary polynomials).
 * Same scheme as deep_zz.c: stack = heap object of EXACTLY f_deep(args) octets, operands = separate heap
 * objects of EXACTLY the word counts documented in bee2/math/pp.h, concrete lengths, symbolic data,
 * header preconditions assumed; CBMC's bounds/pointer checks are the oracle. */
#include "vp.h"
#include <bee2/math/pp.h>
#include <bee2/math/ww.h>
#include <bee2/core/word.h>

#ifndef NMAX
#define NMAX 10
#endif
struct vp_in { word a[2 * NMAX + 2]; word b[2 * NMAX + 2]; word m[NMAX + 2]; word w; };

#define WB(n) ((n) * sizeof(word))
static word* dupw(const word* src, size_t n) { return (word*)vp_dup(src, WB(n)); }
static word* newW(size_t n) { return (word*)vp_alloc(WB(n)); }
#define STACK(sz) vp_alloc(sz)
static int nz(const word* x, size_t n) { size_t i; word o = 0; for (i = 0; i < n; ++i) o |= x[i]; return o != 0; }
static int lt(const word* x, const word* y, size_t n)
{
	size_t i; int r = 0;
	for (i = 0; i < n; ++i) r = x[i] < y[i] ? 1 : (x[i] > y[i] ? 0 : r);
	return r;
}
/* deg(x) < deg(y) <=> bit length of x < bit length of y (deg(0) = -1) */
static int deglt(const word* x, const word* y, size_t n) { return wwBitSize(x, n) < wwBitSize(y, n); }
#define MIN(a, b) ((a) < (b) ? (a) : (b))

static void vp_body(struct vp_in* pin, size_t n, size_t m)
{
#if defined(F_MULW)
	/* [n]b <- [n]a * w, b += a * w */
	{ word* a = dupw(pin->a, n); word* b = newW(n);
	  ppMulW(b, a, n, pin->w, STACK(ppMulW_deep(n))); }
	{ word* a = dupw(pin->a, n); word* b = dupw(pin->b, n);
	  ppAddMulW(b, a, n, pin->w, STACK(ppAddMulW_deep(n))); }
#elif defined(F_MUL)
	/* [n + m]c <- [n]a * [m]b ; [2n]b <- [n]a^2 */
	{ word* a = dupw(pin->a, n); word* b = dupw(pin->b, m); word* c = newW(n + m);
	  ppMul(c, a, n, b, m, STACK(ppMul_deep(n, m))); }
	{ word* a = dupw(pin->a, n); word* c = newW(2 * n);
	  ppSqr(c, a, n, STACK(ppSqr_deep(n))); }
#elif defined(F_DIV)
	/* pp.h: [n - m + 1]q and [n]r (sic) for ppDiv, n >= m ; b[m - 1] != 0 */
	VP_ASSUME(m > 0 && pin->b[m - 1] != 0);
  #ifdef TOP1
	VP_ASSUME(pin->b[m - 1] == 1);      /* deg(b) multiple of B_PER_W */
  #endif
  #ifdef TOPNOT1
	VP_ASSUME(pin->b[m - 1] != 1);
  #endif
	{ word* a = dupw(pin->a, n); word* b = dupw(pin->b, m); word* q = newW(n - m + 1); word* r = newW(n);
	  ppDiv(q, r, a, n, b, m, STACK(ppDiv_deep(n, m))); }
#elif defined(F_MOD)
	/* [m]r <- [n]a mod [m]b ; b[m - 1] != 0 ; n < m admissible */
	VP_ASSUME(m > 0 && pin->b[m - 1] != 0);
	{ word* a = dupw(pin->a, n); word* b = dupw(pin->b, m); word* r = newW(m);
	  ppMod(r, a, n, b, m, STACK(ppMod_deep(n, m))); }
#elif defined(F_GCD)
	VP_ASSUME(nz(pin->a, n) && nz(pin->b, m));
	{ word* a = dupw(pin->a, n); word* b = dupw(pin->b, m); word* d = newW(MIN(n, m));
	  ppGCD(d, a, n, b, m, STACK(ppGCD_deep(n, m))); }
#elif defined(F_EXGCD)
	/* [min(n, m)]d, [m]da, [n]db ; a, b != 0 */
	VP_ASSUME(nz(pin->a, n) && nz(pin->b, m));
	{ word* a = dupw(pin->a, n); word* b = dupw(pin->b, m); word* d = newW(MIN(n, m));
	  word* da = newW(m); word* db = newW(n);
	  ppExGCD(d, da, db, a, n, b, m, STACK(ppExGCD_deep(n, m))); }
#elif defined(F_MODS)
	/* ppMulMod, ppSqrMod: n > 0, mod[n - 1] != 0, deg(a), deg(b) < deg(mod) */
	VP_ASSUME(n > 0 && pin->m[n - 1] != 0);
	VP_ASSUME(deglt(pin->a, pin->m, n) && deglt(pin->b, pin->m, n));
	{ word* a = dupw(pin->a, n); word* b = dupw(pin->b, n); word* mod = dupw(pin->m, n); word* c = newW(n);
	  ppMulMod(c, a, b, mod, n, STACK(ppMulMod_deep(n))); }
	{ word* a = dupw(pin->a, n); word* mod = dupw(pin->m, n); word* c = newW(n);
	  ppSqrMod(c, a, mod, n, STACK(ppSqrMod_deep(n))); }
#elif defined(F_RED)
	/* [2n]a -> [n]a, mod[n - 1] != 0 */
	VP_ASSUME(n > 0 && pin->m[n - 1] != 0);
	{ word* a = dupw(pin->a, 2 * n); word* mod = dupw(pin->m, n);
	  ppRed(a, mod, n, STACK(ppRed_deep(n))); }
#elif defined(F_INVMOD)
	/* ppInvMod, ppDivMod: mod[n - 1] != 0, mod has a constant term, a, divident < mod */
	VP_ASSUME(n > 0 && pin->m[n - 1] != 0 && (pin->m[0] & 1));
	VP_ASSUME(lt(pin->a, pin->m, n) && lt(pin->b, pin->m, n));
  #ifndef ONLY_DIVMOD
	{ word* a = dupw(pin->a, n); word* mod = dupw(pin->m, n); word* c = newW(n);
	  ppInvMod(c, a, mod, n, STACK(ppInvMod_deep(n))); }
  #endif
  #ifndef ONLY_INVMOD
	{ word* a = dupw(pin->a, n); word* dv = dupw(pin->b, n); word* mod = dupw(pin->m, n); word* c = newW(n);
	  ppDivMod(c, dv, a, mod, n, STACK(ppDivMod_deep(n))); }
  #endif
#elif defined(F_IRRED)
	{ word* a = dupw(pin->a, n);
	  ppIsIrred(a, n, STACK(ppIsIrred_deep(n))); }
#elif defined(F_MINPOLY)
	/* second argument of the instance is l: [W_OF_B(l + 1)]b <- minimal polynomial of the 2l bits of [W_OF_B(2l)]a */
	{ size_t l = m; word* a = dupw(pin->a, W_OF_B(2 * l)); word* b = newW(W_OF_B(l + 1));
	  (void)n;
	  ppMinPoly(b, a, l, STACK(ppMinPoly_deep(l))); }
#elif defined(F_MINPOLYMOD)
	/* deg(mod) > 1, deg(a) < deg(mod) */
	VP_ASSUME(n > 0 && pin->m[n - 1] != 0 && (n > 1 || pin->m[0] > 3));
	VP_ASSUME(deglt(pin->a, pin->m, n));
  #ifdef MOD_DEG
	VP_ASSUME(wwBitSize(pin->m, n) == MOD_DEG + 1);   /* bound on the data-dependent trip count 2 deg(mod) - 1 */
  #endif
	{ word* a = dupw(pin->a, n); word* mod = dupw(pin->m, n); word* b = newW(n);
	  ppMinPolyMod(b, a, mod, n, STACK(ppMinPolyMod_deep(n))); }
#else
  #error "select a function group with -DF_xxx"
#endif
	VP_WITNESS();
}
