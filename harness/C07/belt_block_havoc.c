/* C07: the belt block cipher as an ARBITRARY function (CBMC only): every call reads the 16 block octets and the
 * 8 key words through the pointers it is given and overwrites the block with unconstrained values.
 * Replaces the bodies of beltBlockEncr/Encr2/Encr3/Decr/Decr2/Decr3 (removed with --remove-function-body).
 * Sound for memory safety: whatever the real cipher computes is one of the behaviours explored; a wrong block
 * or key pointer is still an out-of-object access inside the stub. The real kernels are covered by c07_kernel_*. */
#include <bee2/crypto/belt.h>
u32 nondet_u32(void);
octet nondet_octet(void);
static u32 vp_key_touch(const u32 key[8])
{
	return key[0] ^ key[1] ^ key[2] ^ key[3] ^ key[4] ^ key[5] ^ key[6] ^ key[7];
}
static void vp_havoc_o(octet block[16], const u32 key[8])
{
	unsigned i; octet r = (octet)vp_key_touch(key);
	for (i = 0; i < 16; ++i) r ^= block[i];
	for (i = 0; i < 16; ++i) block[i] = nondet_octet();
	(void)r;
}
static void vp_havoc_w(u32* a, u32* b, u32* c, u32* d, const u32 key[8])
{
	u32 r = vp_key_touch(key) ^ *a ^ *b ^ *c ^ *d;
	*a = nondet_u32(); *b = nondet_u32(); *c = nondet_u32(); *d = nondet_u32();
	(void)r;
}
void beltBlockEncr(octet block[16], const u32 key[8]) { vp_havoc_o(block, key); }
void beltBlockDecr(octet block[16], const u32 key[8]) { vp_havoc_o(block, key); }
void beltBlockEncr2(u32 block[4], const u32 key[8]) { vp_havoc_w(block, block + 1, block + 2, block + 3, key); }
void beltBlockDecr2(u32 block[4], const u32 key[8]) { vp_havoc_w(block, block + 1, block + 2, block + 3, key); }
void beltBlockEncr3(u32* a, u32* b, u32* c, u32* d, const u32 key[8]) { vp_havoc_w(a, b, c, d, key); }
void beltBlockDecr3(u32* a, u32* b, u32* c, u32* d, const u32 key[8]) { vp_havoc_w(a, b, c, d, key); }
