/* C07, family B: stack depths of the zz layer.
 * Every call f(..., stack) is run with
 *   - stack    = heap object of EXACTLY f_deep(args) octets,
 *   - operands = separate heap objects of EXACTLY the word counts documented in bee2/math/zz.h,
 * lengths concrete (instances), data symbolic, preconditions of the header assumed.
 * The oracle is CBMC's own bounds/pointer checks: a too small _deep is an out-of-object access
 * on the stack object, a wrong operand extent an out-of-object access on the operand.
 * The function group is selected with -DF_xxx (one vp_body per translation unit). */
#include "vp.h"
#include <bee2/math/zz.h>
#include <bee2/math/ww.h>
#include <bee2/core/word.h>

#ifndef NMAX
#define NMAX 6
#endif
struct vp_in { word a[2 * NMAX + 2]; word b[2 * NMAX + 2]; word m[NMAX + 2]; word w; word w2; word w3; };

#define WB(n) ((n) * sizeof(word))
static word* dupw(const word* src, size_t n) { return (word*)vp_dup(src, WB(n)); }
static word* newW(size_t n) { return (word*)vp_alloc(WB(n)); }
#define STACK(sz) vp_alloc(sz)
static int nz(const word* x, size_t n) { size_t i; word o = 0; for (i = 0; i < n; ++i) o |= x[i]; return o != 0; }
/* x < y, both n words */
static int lt(const word* x, const word* y, size_t n)
{
	size_t i; int r = 0;
	for (i = 0; i < n; ++i) r = x[i] < y[i] ? 1 : (x[i] > y[i] ? 0 : r);
	return r;
}
#define MIN(a, b) ((a) < (b) ? (a) : (b))

static void vp_body(struct vp_in* pin, size_t n, size_t m)
{
#if defined(F_MUL)
	/* [n + m]c <- [n]a * [m]b ; [2n]b <- [n]a^2 */
	{ word* a = dupw(pin->a, n); word* b = dupw(pin->b, m); word* c = newW(n + m);
	  zzMul(c, a, n, b, m, STACK(zzMul_deep(n, m))); }
	{ word* a = dupw(pin->a, n); word* c = newW(2 * n);
	  zzSqr(c, a, n, STACK(zzSqr_deep(n))); }
#elif defined(F_DIV)
	/* [n - m + 1]q, [m]r <- [n]a div/mod [m]b ; n >= m for zzDiv, b[m - 1] != 0 */
	VP_ASSUME(m > 0 && pin->b[m - 1] != 0);
	if (n >= m)
	{ word* a = dupw(pin->a, n); word* b = dupw(pin->b, m); word* q = newW(n - m + 1); word* r = newW(m);
	  zzDiv(q, r, a, n, b, m, STACK(zzDiv_deep(n, m))); }
	{ word* a = dupw(pin->a, n); word* b = dupw(pin->b, m); word* r = newW(m);
	  zzMod(r, a, n, b, m, STACK(zzMod_deep(n, m))); }
#elif defined(F_SQRT)
	/* [(n + 1) / 2]b <- sqrt([n]a) */
	{ word* a = dupw(pin->a, n); word* b = newW((n + 1) / 2);
	  zzSqrt(b, a, n, STACK(zzSqrt_deep(n))); }
#elif defined(F_GCD)
	/* [min(n, m)]d <- gcd([n]a, [m]b), a, b != 0 */
	VP_ASSUME(nz(pin->a, n) && nz(pin->b, m));
	{ word* a = dupw(pin->a, n); word* b = dupw(pin->b, m); word* d = newW(MIN(n, m));
	  zzGCD(d, a, n, b, m, STACK(zzGCD_deep(n, m))); }
#elif defined(F_COPRIME)
	/* zzIsCoprime: no precondition on the values */
	{ word* a = dupw(pin->a, n); word* b = dupw(pin->b, m);
	  zzIsCoprime(a, n, b, m, STACK(zzIsCoprime_deep(n, m))); }
#elif defined(F_LCM)
	/* [n + m]d <- lcm([n]a, [m]b), a, b != 0 */
	VP_ASSUME(nz(pin->a, n) && nz(pin->b, m));
	{ word* a = dupw(pin->a, n); word* b = dupw(pin->b, m); word* d = newW(n + m);
	  zzLCM(d, a, n, b, m, STACK(zzLCM_deep(n, m))); }
#elif defined(F_EXGCD)
	/* [min(n, m)]d, [m]da, [n]db ; a, b != 0 */
	VP_ASSUME(nz(pin->a, n) && nz(pin->b, m));
	{ word* a = dupw(pin->a, n); word* b = dupw(pin->b, m); word* d = newW(MIN(n, m));
	  word* da = newW(m); word* db = newW(n);
	  zzExGCD(d, da, db, a, n, b, m, STACK(zzExGCD_deep(n, m))); }
#elif defined(F_JACOBI)
	/* ([n]a / [m]b), b odd */
	VP_ASSUME(m > 0 && (pin->b[0] & 1));
	{ word* a = dupw(pin->a, n); word* b = dupw(pin->b, m);
	  zzJacobi(a, n, b, m, STACK(zzJacobi_deep(n, m))); }
#elif defined(F_MODS)
	/* zzMulMod, zzMulWMod, zzSqrMod: n > 0, mod[n - 1] != 0, a, b < mod */
	VP_ASSUME(n > 0 && pin->m[n - 1] != 0);
	VP_ASSUME(lt(pin->a, pin->m, n) && lt(pin->b, pin->m, n));
	{ word* a = dupw(pin->a, n); word* b = dupw(pin->b, n); word* mod = dupw(pin->m, n); word* c = newW(n);
	  zzMulMod(c, a, b, mod, n, STACK(zzMulMod_deep(n))); }
	{ word* a = dupw(pin->a, n); word* mod = dupw(pin->m, n); word* c = newW(n);
	  zzMulWMod(c, a, pin->w, mod, n, STACK(zzMulWMod_deep(n))); }
	{ word* a = dupw(pin->a, n); word* mod = dupw(pin->m, n); word* c = newW(n);
	  zzSqrMod(c, a, mod, n, STACK(zzSqrMod_deep(n))); }
#elif defined(F_INVMOD)
	/* zzInvMod, zzDivMod: mod odd, mod[n - 1] != 0, a, divident < mod */
	VP_ASSUME(n > 0 && pin->m[n - 1] != 0 && (pin->m[0] & 1));
	VP_ASSUME(lt(pin->a, pin->m, n) && lt(pin->b, pin->m, n));
  #ifndef ONLY_DIVMOD
	{ word* a = dupw(pin->a, n); word* mod = dupw(pin->m, n); word* c = newW(n);
	  zzInvMod(c, a, mod, n, STACK(zzInvMod_deep(n))); }
  #endif
  #ifndef ONLY_INVMOD
	{ word* a = dupw(pin->a, n); word* dv = dupw(pin->b, n); word* mod = dupw(pin->m, n); word* c = newW(n);
	  zzDivMod(c, dv, a, mod, n, STACK(zzDivMod_deep(n))); }
  #endif
#elif defined(F_ALMINV)
	/* zzAlmostInvMod: mod odd, mod[n - 1] != 0, 0 < a < mod */
	VP_ASSUME(n > 0 && pin->m[n - 1] != 0 && (pin->m[0] & 1));
	VP_ASSUME(lt(pin->a, pin->m, n) && nz(pin->a, n));
	{ word* a = dupw(pin->a, n); word* mod = dupw(pin->m, n); word* c = newW(n);
	  zzAlmostInvMod(c, a, mod, n, STACK(zzAlmostInvMod_deep(n))); }
#elif defined(F_RED)
	/* [2n]a -> [n]a ; zzRed: mod[n - 1] != 0 ; zzRedMont: mod odd, a < mod * B^n, mont_param = wordNegInv(mod[0]) */
	VP_ASSUME(n > 0 && pin->m[n - 1] != 0);
	{ word* a = dupw(pin->a, 2 * n); word* mod = dupw(pin->m, n);
	  zzRed(a, mod, n, STACK(zzRed_deep(n))); }
	if ((pin->m[0] & 1) && lt(pin->a + n, pin->m, n))
	{
		word mp = wordNegInv(pin->m[0]);
		{ word* a = dupw(pin->a, 2 * n); word* mod = dupw(pin->m, n);
		  SAFE(zzRedMont)(a, mod, n, mp, STACK(zzRedMont_deep(n))); }
		{ word* a = dupw(pin->a, 2 * n); word* mod = dupw(pin->m, n);
		  FAST(zzRedMont)(a, mod, n, mp, STACK(zzRedMont_deep(n))); }
	}
#elif defined(F_REDCRAND)
	/* n >= 2, mod = B^n - c, 0 < c < B ; Montgomery variant: mod odd, a < mod * B^n */
	{ size_t i; VP_ASSUME(n >= 2 && pin->m[0] != 0); for (i = 1; i < n; ++i) VP_ASSUME(pin->m[i] == WORD_MAX); }
	{ word* a = dupw(pin->a, 2 * n); word* mod = dupw(pin->m, n);
	  SAFE(zzRedCrand)(a, mod, n, STACK(zzRedCrand_deep(n))); }
	{ word* a = dupw(pin->a, 2 * n); word* mod = dupw(pin->m, n);
	  FAST(zzRedCrand)(a, mod, n, STACK(zzRedCrand_deep(n))); }
	if ((pin->m[0] & 1) && lt(pin->a + n, pin->m, n))
	{
		word mp = wordNegInv(pin->m[0]);
		{ word* a = dupw(pin->a, 2 * n); word* mod = dupw(pin->m, n);
		  SAFE(zzRedCrandMont)(a, mod, n, mp, STACK(zzRedCrandMont_deep(n))); }
		{ word* a = dupw(pin->a, 2 * n); word* mod = dupw(pin->m, n);
		  FAST(zzRedCrandMont)(a, mod, n, mp, STACK(zzRedCrandMont_deep(n))); }
	}
#elif defined(F_REDBARR)
	/* [n + 2]barr_param <- zzRedBarrStart([n]mod) ; then [2n]a -> [n]a with that parameter (header: \expect) */
	VP_ASSUME(n > 0 && pin->m[n - 1] != 0);
	{
		word* mod = dupw(pin->m, n); word* bp = newW(n + 2);
		zzRedBarrStart(bp, mod, n, STACK(zzRedBarrStart_deep(n)));
		{ word* a = dupw(pin->a, 2 * n);
		  SAFE(zzRedBarr)(a, mod, n, bp, STACK(zzRedBarr_deep(n))); }
		{ word* a = dupw(pin->a, 2 * n);
		  FAST(zzRedBarr)(a, mod, n, bp, STACK(zzRedBarr_deep(n))); }
	}
#elif defined(F_POWW)
	/* zzPowerModW: mod != 0 */
	VP_ASSUME(pin->w3 != 0);
	zzPowerModW(pin->w, pin->w2, pin->w3, STACK(zzPowerModW_deep()));
#elif defined(F_POWMOD)
	/* [n]c <- [n]a ^ [m]b mod [n]mod ; n > 0, mod[n - 1] != 0, a < mod */
	VP_ASSUME(n > 0 && pin->m[n - 1] != 0);
	VP_ASSUME(lt(pin->a, pin->m, n));
  #ifdef POW_ODD
	VP_ASSUME(pin->m[0] & 1);
  #endif
	{ word* a = dupw(pin->a, n); word* b = dupw(pin->b, m); word* mod = dupw(pin->m, n); word* c = newW(n);
	  zzPowerMod(c, a, n, b, m, mod, STACK(zzPowerMod_deep(n, m))); }
#else
  #error "select a function group with -DF_xxx"
#endif
	VP_WITNESS();
}
