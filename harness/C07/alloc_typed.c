/* C07 family D (CBMC only): memAlloc of src/core/mem.c (body removed) with the same contract - a fresh heap object
 * of exactly `count` octets - but word-typed when count is a multiple of the word size, so that CBMC keeps a typed
 * view of the blob (10x cheaper symbolic execution; object size and bounds unchanged). Native replay: real memAlloc. */
#include <stdlib.h>
#include <bee2/core/mem.h>
void* memAlloc(size_t count)
{
	if (count % 8 == 0) return malloc(sizeof(unsigned long long) * (count / 8));
	if (count % 4 == 0) return malloc(sizeof(unsigned) * (count / 4));
	return malloc(count);
}
