/* C07 (CBMC only): memcpy / memmove / memset as plain loops, word-wise where source, destination and length are
 * word-aligned inside their objects (offsets are concrete in the instance-mode harnesses, so the choice is made
 * during symbolic execution). Same semantics as the C library; every element access is an ordinary dereference
 * checked by --pointer-check / --bounds-check (CBMC's built-in models copy whole arrays at once, which blows up on
 * state-to-state copies such as memCopy(st->stack, st->stack + keep, keep) inside one heap object). */
#include <stddef.h>
typedef unsigned long long vp_w;
#define OFF(p) __CPROVER_POINTER_OFFSET(p)

void* memcpy(void* dst, const void* src, size_t n)
{
	size_t i = 0;
	unsigned char* d = (unsigned char*)dst; const unsigned char* s = (const unsigned char*)src;
	if (OFF(dst) % 8 == 0 && OFF(src) % 8 == 0)
		for (; i + 8 <= n; i += 8) *(vp_w*)(d + i) = *(const vp_w*)(s + i);
	for (; i < n; ++i) d[i] = s[i];
	return dst;
}

void* memmove(void* dst, const void* src, size_t n)
{
	size_t i;
	unsigned char* d = (unsigned char*)dst; const unsigned char* s = (const unsigned char*)src;
	if (__CPROVER_POINTER_OBJECT(dst) == __CPROVER_POINTER_OBJECT(src) && OFF(dst) > OFF(src))
	{
		i = n;
		if (OFF(dst) % 8 == 0 && OFF(src) % 8 == 0 && n % 8 == 0)
			for (; i >= 8; i -= 8) *(vp_w*)(d + i - 8) = *(const vp_w*)(s + i - 8);
		for (; i > 0; --i) d[i - 1] = s[i - 1];
		return dst;
	}
	i = 0;
	if (OFF(dst) % 8 == 0 && OFF(src) % 8 == 0)
		for (; i + 8 <= n; i += 8) *(vp_w*)(d + i) = *(const vp_w*)(s + i);
	for (; i < n; ++i) d[i] = s[i];
	return dst;
}

void* memset(void* dst, int c, size_t n)
{
	size_t i = 0;
	unsigned char* d = (unsigned char*)dst;
	vp_w w = 0x0101010101010101ull * (unsigned char)c;
	if (OFF(dst) % 8 == 0)
		for (; i + 8 <= n; i += 8) *(vp_w*)(d + i) = w;
	for (; i < n; ++i) d[i] = (unsigned char)c;
	return dst;
}

void* memchr(const void* s, int c, size_t n)
{
	const unsigned char* x = (const unsigned char*)s; size_t i;
	for (i = 0; i < n; ++i) if (x[i] == (unsigned char)c) return (void*)(x + i);
	return 0;
}
