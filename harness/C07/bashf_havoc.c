/* C07: bash-f as an ARBITRARY function of the 192-octet state (CBMC only): reads and overwrites exactly block[0..192)
 * through the pointer it is given; does not touch the stack (bashF_deep() == 0 in the 64-bit implementation that the
 * W64 and W32 profiles compile). Replaces src/crypto/bash/bash_f.c. The real bashF is covered by c07_kernel_bashF. */
#include <bee2/crypto/bash.h>
unsigned long long nondet_u64(void);
void bashF(octet block[192], void* stack)
{
	unsigned i; unsigned long long r = 0; unsigned long long* w = (unsigned long long*)block;
	for (i = 0; i < 24; ++i) r ^= w[i];
	for (i = 0; i < 24; ++i) w[i] = nondet_u64();
	(void)r; (void)stack;
}
size_t bashF_deep() { return 0; }
