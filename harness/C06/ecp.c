/* C06: the point formulas of ecp.c (real code, #included so that the file-local Jacobian routines are
 * reachable) executed over an EXACT prime field supplied by the harness: a qr_o whose mul/sqr/inv/div are
 * native arithmetic modulo the small prime P (the zm/gfp object layer of the library cannot be executed
 * symbolically; its arithmetic is C05's subject). zmAdd/zmSub/zmNeg/gfpDouble/gfpHalf stay the real zz_mod.c code.
 * Curve coefficients A, B are SYMBOLIC (every non-singular curve over GF(P)), points symbolic and
 * constrained only by the curve equation: O, P = Q, P = -Q, order-2 points are inside the domain.
 * Reference: textbook affine chord-and-tangent law with a constant inverse table. */
#include "vp.h"
#include "math/ecp.c"

#ifndef P
#define P 31
#endif
typedef unsigned long long U;
struct vp_in { word A, B; word a[3]; word b[3]; };

/* ---- exact field ---- */
static word INV[P];           /* filled once: INV[x] * x == 1 mod P */
static void f_init(void) { unsigned x, y; for (x = 1; x < P; ++x) for (y = 1; y < P; ++y) if ((x * y) % P == 1) INV[x] = y; INV[0] = 0; }
static bool_t f_from(word b[], const octet a[], const qr_o* r, void* st) { b[0] = a[0]; return a[0] < P; }
static void f_to(octet b[], const word a[], const qr_o* r, void* st) { b[0] = (octet)a[0]; }
static void f_add(word c[], const word a[], const word b[], const qr_o* r) { c[0] = (a[0] + b[0]) % P; }
static void f_sub(word c[], const word a[], const word b[], const qr_o* r) { c[0] = (a[0] + P - b[0]) % P; }
static void f_neg(word b[], const word a[], const qr_o* r) { b[0] = (P - a[0]) % P; }
static void f_mul(word c[], const word a[], const word b[], const qr_o* r, void* st) { c[0] = (a[0] * b[0]) % P; }
static void f_sqr(word b[], const word a[], const qr_o* r, void* st) { b[0] = (a[0] * a[0]) % P; }
static void f_inv(word b[], const word a[], const qr_o* r, void* st) { b[0] = INV[a[0] % P]; }
static void f_div(word b[], const word d[], const word a[], const qr_o* r, void* st) { b[0] = (d[0] * INV[a[0] % P]) % P; }

static word f_mod[1] = { P }, f_one[1] = { 1 };
static qr_o F;
static struct { ec_o ec; } C;
static word cA[1], cB[1];
static word stack_mem[64];

static void setup(word A, word B)
{
	f_init();
	F.hdr.keep = sizeof(qr_o); F.hdr.p_count = 3; F.hdr.o_count = 0;
	F.mod = f_mod; F.unity = f_one; F.params = 0; F.n = 1; F.no = 1;
	F.from = f_from; F.to = f_to; F.add = f_add; F.sub = f_sub; F.neg = f_neg; F.mul = f_mul; F.sqr = f_sqr; F.inv = f_inv; F.div = f_div; F.deep = 0;
	cA[0] = A; cB[0] = B;
	C.ec.hdr.keep = sizeof(ec_o); C.ec.hdr.p_count = 6; C.ec.hdr.o_count = 1;
	C.ec.f = &F; C.ec.A = cA; C.ec.B = cB; C.ec.base = 0; C.ec.order = 0; C.ec.params = 0; C.ec.d = 3; C.ec.cofactor = 1;
	C.ec.froma = ecpFromAJ; C.ec.toa = ecpToAJ; C.ec.neg = ecpNegJ; C.ec.add = ecpAddJ; C.ec.adda = ecpAddAJ; C.ec.sub = ecpSubJ; C.ec.suba = ecpSubAJ;
	C.ec.dbl = (A == P - 3) ? ecpDblJA3 : ecpDblJ; C.ec.dbla = ecpDblAJ; C.ec.tpl = (A == P - 3) ? ecpTplJA3 : ecpTplJ; C.ec.deep = sizeof stack_mem;
}

/* ---- reference group law on affine points; inf flag ---- */
typedef struct { int inf; U x, y; } pt;
static U md(U v) { return v % P; }
static int on_curve(U x, U y, U A, U B) { return md(y * y) == md(md(md(x * x) * x) + md(A * x) + B); }
static pt ref_add(pt p, pt q, U A)
{
	pt r; U l;
	if (p.inf) return q;
	if (q.inf) return p;
	if (p.x == q.x && md(p.y + q.y) == 0) { r.inf = 1; r.x = r.y = 0; return r; }
	if (p.x == q.x) l = md(md(3 * md(p.x * p.x) + A) * INV[md(2 * p.y)]);
	else l = md(md(q.y + P - p.y) * INV[md(q.x + P - p.x)]);
	r.inf = 0; r.x = md(md(l * l) + 2 * P - p.x - q.x); r.y = md(md(l * md(p.x + P - r.x)) + P - p.y);
	return r;
}
static pt ref_neg(pt p) { p.y = md(P - p.y); return p; }
/* Jacobian (X:Y:Z) -> affine reference point */
static pt from_j(const word a[3]) { pt r; U zi = INV[md(a[2])], z2 = md(zi * zi); r.inf = (a[2] == 0); r.x = md(a[0] * z2); r.y = md(a[1] * md(z2 * zi)); if (r.inf) r.x = r.y = 0; return r; }
static int pt_eq(pt a, pt b) { return a.inf == b.inf && (a.inf || (a.x == b.x && a.y == b.y)); }
static int valid_j(const word a[3], U A, U B)
{	/* in the field, and on the curve in Jacobian form y^2 = x^3 + A x z^4 + B z^6 (or z == 0) */
	U z2, z4, z6;
	if (a[2] == 0) return 1;         /* O: only Z == 0 matters (the routines leave X, Y untouched) */
	if (a[0] >= P || a[1] >= P || a[2] >= P) return 0;
	z2 = md(a[2] * a[2]); z4 = md(z2 * z2); z6 = md(z4 * z2);
	return md(a[1] * a[1]) == md(md(md(a[0] * a[0]) * a[0]) + md(md(A * a[0]) * z4) + md(B * z6));
}
static int valid_a(const word a[2], U A, U B) { return a[0] < P && a[1] < P && on_curve(a[0], a[1], A, B); }
static pt from_a(const word a[2]) { pt r; r.inf = 0; r.x = a[0]; r.y = a[1]; return r; }

#define COMMON() \
	VP_INPUT(); U A = in.A, B = in.B; word c[3]; pt pa, pb, pr; \
	VP_ASSUME(A < P && B < P && md(4 * md(md(A * A) * A) + 27 * md(B * B)) != 0); \
	setup(in.A, in.B)

#define JAC_PRE() COMMON(); \
	VP_ASSUME(valid_j(in.a, A, B) && valid_j(in.b, A, B) && in.a[0] < P && in.a[1] < P && in.b[0] < P && in.b[1] < P); \
	pa = from_j(in.a); pb = from_j(in.b); VP_WITNESS()
void h_jac_neg(void) { JAC_PRE(); ecpNegJ(c, in.a, &C.ec, stack_mem); VP_ASSERT(valid_j(c, A, B) && pt_eq(from_j(c), pa.inf ? pa : ref_neg(pa)), "ecpNegJ == -P"); }
void h_jac_add(void) { JAC_PRE(); ecpAddJ(c, in.a, in.b, &C.ec, stack_mem); pr = ref_add(pa, pb, A);
	VP_ASSERT(valid_j(c, A, B) && pt_eq(from_j(c), pr), "ecpAddJ == P + Q (all special cases)"); }
void h_jac_sub(void) { JAC_PRE(); ecpSubJ(c, in.a, in.b, &C.ec, stack_mem); pr = ref_add(pa, pb.inf ? pb : ref_neg(pb), A);
	VP_ASSERT(valid_j(c, A, B) && pt_eq(from_j(c), pr), "ecpSubJ == P - Q"); }
void h_jac_dbl(void) { JAC_PRE(); C.ec.dbl(c, in.a, &C.ec, stack_mem); pr = ref_add(pa, pa, A);
	VP_ASSERT(valid_j(c, A, B) && pt_eq(from_j(c), pr), "ecpDblJ / ecpDblJA3 == 2P");
	{ word t[3]; t[0] = in.a[0]; t[1] = in.a[1]; t[2] = in.a[2]; C.ec.dbl(t, t, &C.ec, stack_mem); VP_ASSERT(pt_eq(from_j(t), pr), "dbl b==a"); } }
void h_jac_tpl(void) { JAC_PRE(); C.ec.tpl(c, in.a, &C.ec, stack_mem); pr = ref_add(ref_add(pa, pa, A), pa, A);
	VP_ASSERT(valid_j(c, A, B) && pt_eq(from_j(c), pr), "ecpTplJ / ecpTplJA3 == 3P"); }
void h_jac_alias(void) { JAC_PRE(); pr = ref_add(pa, pb, A);
	{ word t[3]; t[0] = in.a[0]; t[1] = in.a[1]; t[2] = in.a[2]; ecpAddJ(t, t, in.b, &C.ec, stack_mem); VP_ASSERT(pt_eq(from_j(t), pr), "ecpAddJ c==a"); }
	{ word t[3]; t[0] = in.b[0]; t[1] = in.b[1]; t[2] = in.b[2]; ecpAddJ(t, in.a, t, &C.ec, stack_mem); VP_ASSERT(pt_eq(from_j(t), pr), "ecpAddJ c==b"); } }

#define MIX_PRE() COMMON(); \
	VP_ASSUME(valid_j(in.a, A, B) && valid_a(in.b, A, B) && in.a[0] < P && in.a[1] < P); \
	pa = from_j(in.a); pb = from_a(in.b); VP_WITNESS()
void h_mixed_add(void) { MIX_PRE(); ecpAddAJ(c, in.a, in.b, &C.ec, stack_mem); VP_ASSERT(valid_j(c, A, B) && pt_eq(from_j(c), ref_add(pa, pb, A)), "ecpAddAJ == P + Q (Q affine)"); }
void h_mixed_sub(void) { MIX_PRE(); ecpSubAJ(c, in.a, in.b, &C.ec, stack_mem); VP_ASSERT(valid_j(c, A, B) && pt_eq(from_j(c), ref_add(pa, ref_neg(pb), A)), "ecpSubAJ == P - Q (Q affine)"); }
void h_mixed_dbl(void) { MIX_PRE(); ecpDblAJ(c, in.b, &C.ec, stack_mem); VP_ASSERT(valid_j(c, A, B) && pt_eq(from_j(c), ref_add(pb, pb, A)), "ecpDblAJ == 2Q (Q affine)"); }
void h_mixed_conv(void) { MIX_PRE();
	{ bool_t ok = ecpFromAJ(c, in.b, &C.ec, stack_mem); VP_ASSERT(ok && pt_eq(from_j(c), pb), "ecpFromAJ"); }
	{ word t[2]; bool_t ok = ecpToAJ(t, in.a, &C.ec, stack_mem);
	  VP_ASSERT((ok != 0) == !pa.inf, "ecpToAJ reports infinity exactly for Z == 0");
	  if (ok) VP_ASSERT(t[0] == pa.x && t[1] == pa.y, "ecpToAJ == affine coordinates"); } }

void h_affine(void)
{
	COMMON(); word t[2]; bool_t ok;
	VP_ASSUME(in.a[0] < P && in.a[1] < P && in.b[0] < P && in.b[1] < P);
	VP_WITNESS();
	VP_ASSERT((ecpIsOnA(in.a, &C.ec, stack_mem) != 0) == on_curve(in.a[0], in.a[1], A, B), "ecpIsOnA == curve equation");
	if (on_curve(in.a[0], in.a[1], A, B) && on_curve(in.b[0], in.b[1], A, B))
	{
		pa = from_a(in.a); pb = from_a(in.b);
		ok = ecpAddAA(t, in.a, in.b, &C.ec, stack_mem); pr = ref_add(pa, pb, A);
		VP_ASSERT((ok != 0) == !pr.inf, "ecpAddAA reports infinity exactly when P + Q == O");
		if (ok) VP_ASSERT(t[0] == pr.x && t[1] == pr.y, "ecpAddAA == P + Q");
		ok = ecpSubAA(t, in.a, in.b, &C.ec, stack_mem); pr = ref_add(pa, ref_neg(pb), A);
		VP_ASSERT((ok != 0) == !pr.inf, "ecpSubAA reports infinity exactly when P - Q == O");
		if (ok) VP_ASSERT(t[0] == pr.x && t[1] == pr.y, "ecpSubAA == P - Q");
		ecpNegA(t, in.a, &C.ec); VP_ASSERT(t[0] == pa.x && t[1] == md(P - pa.y), "ecpNegA");
	}
}
