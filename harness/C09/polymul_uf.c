/* polymul_uf.c (CBMC only) - beltPolyMul (multiplication in GF(2^128), belt_lcl.c) as an
 * uninterpreted function of its two operands; beltPolyMul_deep() = VP_POLYMUL_DEEP octets.
 * With -DVP_SCRIBBLE the stub overwrites its whole stack area with arbitrary values (C15: the
 * real routine leaves operand-derived words there). W64 only. */
#include <bee2/crypto/belt.h>
typedef unsigned long long U;
typedef unsigned __int128 UU;
#ifndef VP_POLYMUL_DEEP
#define VP_POLYMUL_DEEP 64
#endif
UU __CPROVER_uninterpreted_beltPolyMul(U, U, U, U);
unsigned vp_uf_polymul_calls = 0;
unsigned char nondet_uchar(void);
void beltPolyMul(word c[], const word a[], const word b[], void* stack)
{
	UU y = __CPROVER_uninterpreted_beltPolyMul(a[0], a[1], b[0], b[1]);
#ifdef VP_SCRIBBLE
	{
		unsigned char* s = (unsigned char*)stack; unsigned i;
		for (i = 0; i < VP_POLYMUL_DEEP; ++i) s[i] = nondet_uchar();
	}
#endif
	c[0] = (U)y; c[1] = (U)(y >> 64);
	++vp_uf_polymul_calls;
}
size_t beltPolyMul_deep() { return VP_POLYMUL_DEEP; }
