/* C09 (2): verify-before-release. beltDWPUnwrap / beltCHEUnwrap / beltKWPUnwrap with the block
 * cipher (and the GF(2^128) multiplication) uninterpreted, lengths concrete per instance, ALL of
 * data / mac / header / key / iv symbolic: whenever the result is not ERR_OK the destination is
 * bit-identical to its pre-state or all-zero, i.e. not one octet of unauthenticated plaintext / key
 * material is released; the only error class is the documented one (ERR_BAD_MAC / ERR_BAD_KEYTOKEN).
 * alias = 1: in-place call (dest == src, allowed by belt.h "Буферы могут пересекаться"): the
 * pre-state of dest is then the protected input itself. Buffers are exact-size heap objects. */
#include "vp.h"
#include <bee2/core/err.h>
#include <bee2/crypto/belt.h>
#ifndef MAXN
#define MAXN 64
#endif
struct vp_in {
	octet pat[MAXN];
	octet src1[MAXN];
	octet src2[MAXN];
	octet mac[8];
	octet hdr[16];
	octet key[32];
	octet iv[16];
	octet hdr_null;
};
enum { DWP, CHE, KWP };

static int all_zero(const octet* p, size_t n)
{
	size_t i; octet d = 0;
	for (i = 0; i < n; ++i) d |= p[i];
	return d == 0;
}

/* count1: protected data length (KWP: token length count >= 32), count2: public data length */
static void vp_body(struct vp_in* pin, int which, size_t count1, size_t count2, size_t len, int alias)
{
#define in (*pin)
	size_t dlen = which == KWP ? count1 - 16 : count1;
	octet* src1 = (octet*)vp_dup(in.src1, count1 ? count1 : 1);
	octet* src2 = (octet*)vp_dup(in.src2, count2 ? count2 : 1);
	octet* key = (octet*)vp_dup(in.key, len);
	octet* dest = alias ? src1 : (octet*)vp_dup(in.pat, dlen ? dlen : 1);
	const octet* pre = alias ? in.src1 : in.pat;
	err_t ret;
	VP_ASSUME(count1 <= MAXN && count2 <= MAXN);
	if (which == DWP)
		ret = beltDWPUnwrap(dest, src1, count1, src2, count2, in.mac, key, len, in.iv);
	else if (which == CHE)
		ret = beltCHEUnwrap(dest, src1, count1, src2, count2, in.mac, key, len, in.iv);
	else
		ret = beltKWPUnwrap(dest, src1, count1, in.hdr_null ? (const octet*)0 : (const octet*)in.hdr, key, len);
	VP_WITNESS();
	VP_ASSERT(ret == ERR_OK || ret == (which == KWP ? ERR_BAD_KEYTOKEN : ERR_BAD_MAC), "valid arguments: ERR_OK or the documented verification error");
	VP_ASSERT(ret == ERR_OK || vp_eq(dest, pre, dlen) || all_zero(dest, dlen),
		"verification failed: dest is bit-identical to its pre-state or all-zero (nothing released)");
	free(src1); free(src2); free(key); if (!alias) free(dest);
#undef in
}
