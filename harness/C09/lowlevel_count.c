/* lowlevel_count.c (CBMC only) - C09 argument-domain family: every low-level Start/Step function
 * reachable from the high-level functions under test is replaced by a stub that only counts the
 * call (vp_ll_calls). "The argument check comes first" is then: vp_ll_calls == 0 on return.
 * The bodies of the real functions are removed from the translation units (props/C09.py LL_*),
 * the high-level functions, the *_keep() functions and blob.c stay real. Parameter lists are
 * left unspecified on purpose (the stubs touch no argument). */
unsigned vp_ll_calls = 0;
int nondet_int(void);
#define S(f) void f() { ++vp_ll_calls; }
#define B(f) int f() { ++vp_ll_calls; return nondet_int() & 1; }
S(beltECBStart) S(beltECBStepE) S(beltECBStepD)
S(beltCBCStart) S(beltCBCStepE) S(beltCBCStepD)
S(beltCFBStart) S(beltCFBStepE) S(beltCFBStepD)
S(beltCTRStart) S(beltCTRStepE)
S(beltMACStart) S(beltMACStepA) S(beltMACStepG)
S(beltDWPStart) S(beltDWPStepE) S(beltDWPStepI) S(beltDWPStepA) S(beltDWPStepG) S(beltDWPStepD) B(beltDWPStepV)
S(beltCHEStart) S(beltCHEStepE) S(beltCHEStepI) S(beltCHEStepA) S(beltCHEStepG) S(beltCHEStepD) B(beltCHEStepV)
S(beltWBLStart) S(beltWBLStepE) S(beltWBLStepD) S(beltWBLStepD2)
S(beltBDEStart) S(beltBDEStepE) S(beltBDEStepD)
S(beltSDEStart) S(beltSDEStepE) S(beltSDEStepD)
S(beltKRPStart) S(beltKRPStepG)
S(beltHMACStart) S(beltHMACStepA) S(beltHMACStepG)
S(bashHashStart) S(bashHashStepH) S(bashHashStepG)
S(botpHOTPStart) S(botpHOTPStepS) S(botpHOTPStepR) B(botpHOTPStepV)
S(botpTOTPStart) S(botpTOTPStepR) B(botpTOTPStepV)
S(brngHMACStart) S(brngHMACStepR)
