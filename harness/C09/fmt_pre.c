/* fmt_pre.c (CBMC only) - the low-level FMT functions replaced by their documented contract
 * (belt.h: "\pre 2 <= mod && mod <= 65536", "\pre 2 <= count && count <= 600", "\pre len == 16 ||
 * len == 24 || len == 32"): each stub asserts its \pre lines and counts the call. A high-level
 * function that lets an out-of-domain argument through to them violates the assertion here;
 * the native replay then runs the REAL belt_fmt.c on the solver's input. */
#include <bee2/crypto/belt.h>
unsigned vp_pre_calls = 0;
size_t beltFMT_keep(u32 mod, size_t count)
{
	++vp_pre_calls;
	__CPROVER_assert(2 <= mod && mod <= 65536, "VP_PROP beltFMT_keep called within its precondition 2 <= mod <= 65536");
	__CPROVER_assert(2 <= count && count <= 600, "VP_PROP beltFMT_keep called within its precondition 2 <= count <= 600");
	return 256;
}
void beltFMTStart(void* state, u32 mod, size_t count, const octet key[], size_t len)
{
	++vp_pre_calls;
	__CPROVER_assert(2 <= mod && mod <= 65536, "VP_PROP beltFMTStart called within its precondition 2 <= mod <= 65536");
	__CPROVER_assert(2 <= count && count <= 600, "VP_PROP beltFMTStart called within its precondition 2 <= count <= 600");
	__CPROVER_assert(len == 16 || len == 24 || len == 32, "VP_PROP beltFMTStart called within its precondition on len");
}
void beltFMTStepE(u16 buf[], const octet iv[16], void* state) { ++vp_pre_calls; }
void beltFMTStepD(u16 buf[], const octet iv[16], void* state) { ++vp_pre_calls; }
