/* fmt_pre.c (CBMC only) - the low-level FMT functions replaced by their documented contract
 * (belt.h: "\pre 2 <= mod && mod <= 65536", "\pre 2 <= count && count <= 600", "\pre len == 16 ||
 * len == 24 || len == 32"): each stub asserts its \pre lines and counts the call. A high-level
 * function that lets an out-of-domain argument through to them violates the assertion here;
 * the native replay then runs the REAL belt_fmt.c on the solver's input. */
#include <bee2/crypto/belt.h>
unsigned vp_pre_calls = 0;
/* bit set = that \pre line was violated by the caller (asserted by the harness after its witness:
 * an assertion placed here would cut the path for the later properties) */
unsigned vp_pre_violated = 0;
size_t beltFMT_keep(u32 mod, size_t count)
{
	++vp_pre_calls;
	if (!(2 <= mod && mod <= 65536)) vp_pre_violated |= 1;
	if (!(2 <= count && count <= 600)) vp_pre_violated |= 2;
	return 64;
}
void beltFMTStart(void* state, u32 mod, size_t count, const octet key[], size_t len)
{
	++vp_pre_calls;
	if (!(2 <= mod && mod <= 65536)) vp_pre_violated |= 1;
	if (!(2 <= count && count <= 600)) vp_pre_violated |= 2;
	if (!(len == 16 || len == 24 || len == 32)) vp_pre_violated |= 4;
}
void beltFMTStepE(u16 buf[], const octet iv[16], void* state) { ++vp_pre_calls; }
void beltFMTStepD(u16 buf[], const octet iv[16], void* state) { ++vp_pre_calls; }
