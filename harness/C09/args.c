/* C09 (1): argument domain. One instance = one documented \expect{ERR_...} condition of one
 * high-level function, NEGATED: the scalar argument under test is symbolic and assumed OUTSIDE
 * the documented domain, the other scalars are symbolic INSIDE theirs, all pointers are valid,
 * the output buffers hold a symbolic pattern. Asserted: an error is returned, it is the class
 * the header names, the outputs still hold the pattern, no cipher/hash kernel was evaluated.
 * The table below is transcribed from include/bee2/crypto/{belt,bash,botp}.h. */
#include "vp.h"
#include <bee2/core/err.h>
#include <bee2/core/tm.h>
#include <bee2/crypto/belt.h>
#include <bee2/crypto/bash.h>
#include <bee2/crypto/botp.h>
#include <bee2/crypto/brng.h>

#define CAP 48            /* data lengths up to CAP octets */
#define DCAP (CAP + 16)   /* destination capacity (KWPWrap: count + 16) */

struct vp_in {
	octet pat[DCAP];       /* pre-state of dest */
	octet pat2[32];        /* pre-state of the second output (mac, key, otp) */
	octet src[DCAP];
	octet src2[16];
	octet key[32];
	octet iv[16];
	octet mac[8];
	octet hdr[16];
	octet level[12];
	octet ctr[8];
	char otp[12];
	size_t count, count2, len, m, n, iter, digit, l, off;
	unsigned mod;
	long long t;
};

#ifdef VP_CBMC
/* call counters of the kernel stubs linked into the obligation (-DKC_BLOCK / -DKC_BASH / -DKC_PRE) */
#ifdef KC_BLOCK
extern unsigned vp_uf_block_calls;
#else
#define vp_uf_block_calls 0u
#endif
#ifdef KC_BASH
extern unsigned vp_uf_bashf_calls;
#else
#define vp_uf_bashf_calls 0u
#endif
#ifdef KC_PRE
extern unsigned vp_pre_calls;      /* precondition-checking stubs of the low-level FMT functions (fmt_pre.c) */
extern unsigned vp_pre_violated;
#else
#define vp_pre_calls 0u
#define vp_pre_violated 0u
#endif
#ifdef KC_LL
extern unsigned vp_ll_calls;       /* counting stubs of the low-level Start/Step functions (lowlevel_count.c) */
#else
#define vp_ll_calls 0u
#endif
#define KCALLS() (vp_uf_block_calls + vp_uf_bashf_calls + vp_pre_calls + vp_ll_calls)
#else
#define KCALLS() 0
#define vp_pre_violated 0u
#endif

#define BADLEN(x) ((x) != 16 && (x) != 24 && (x) != 32)
#define OKLEN(x) ((x) == 16 || (x) == 24 || (x) == 32)

enum {
	ECB_E_LEN, ECB_E_COUNT, ECB_D_LEN, ECB_D_COUNT,
	CBC_E_LEN, CBC_E_COUNT, CBC_D_LEN, CBC_D_COUNT,
	CFB_E_LEN, CFB_D_LEN, CTR_LEN, MAC_LEN,
	DWP_W_LEN, DWP_U_LEN, CHE_W_LEN, CHE_U_LEN,
	KWP_W_LEN, KWP_W_COUNT, KWP_U_LEN, KWP_U_COUNT,
	BDE_E_LEN, BDE_E_COUNT, BDE_D_LEN, BDE_D_COUNT,
	SDE_E_LEN, SDE_E_COUNT, SDE_D_LEN, SDE_D_COUNT,
	KRP_N, KRP_M, KRP_MGTN, PBKDF2_ITER,
	FMT_E_MODLO, FMT_E_MODHI, FMT_E_COUNTLO, FMT_E_LEN, FMT_E_COUNTHI, FMT_E_IVOVL,
	FMT_D_MODLO, FMT_D_MODHI, FMT_D_COUNTLO, FMT_D_LEN, FMT_D_COUNTHI, FMT_D_IVOVL,
	BASH_L,
	HOTP_R_DIGIT, TOTP_R_DIGIT, TOTP_R_TIME, HOTP_V_DIGIT, TOTP_V_DIGIT, TOTP_V_TIME,
	DWP_W_OVL, CHE_W_OVL, BRNG_HMAC_OVL
};

/* count > 600 needs genuinely valid [2 * count] buffers: count ranges over (600, MAXC] */
#define MAXC 1024
static octet vp_big_dest[2 * MAXC], vp_big_src[2 * MAXC];

static void vp_body(struct vp_in* pin, int which)
{
#define in (*pin)
	size_t probe = 0;
	octet dest[DCAP];
	octet out2[32];
	err_t ret = ERR_OK, exp = ERR_BAD_INPUT;
	size_t i;
	memcpy(dest, in.pat, DCAP);
	memcpy(out2, in.pat2, 32);
	switch (which)
	{
	/* belt.h: len == 16 || len == 24 || len == 32; count >= 16 */
	case ECB_E_LEN: VP_ASSUME(BADLEN(in.len) && 16 <= in.count && in.count <= CAP);
		ret = beltECBEncr(dest, in.src, in.count, in.key, in.len); break;
	case ECB_E_COUNT: VP_ASSUME(OKLEN(in.len) && in.count < 16);
		ret = beltECBEncr(dest, in.src, in.count, in.key, in.len); break;
	case ECB_D_LEN: VP_ASSUME(BADLEN(in.len) && 16 <= in.count && in.count <= CAP);
		ret = beltECBDecr(dest, in.src, in.count, in.key, in.len); break;
	case ECB_D_COUNT: VP_ASSUME(OKLEN(in.len) && in.count < 16);
		ret = beltECBDecr(dest, in.src, in.count, in.key, in.len); break;
	case CBC_E_LEN: VP_ASSUME(BADLEN(in.len) && 16 <= in.count && in.count <= CAP);
		ret = beltCBCEncr(dest, in.src, in.count, in.key, in.len, in.iv); break;
	case CBC_E_COUNT: VP_ASSUME(OKLEN(in.len) && in.count < 16);
		ret = beltCBCEncr(dest, in.src, in.count, in.key, in.len, in.iv); break;
	case CBC_D_LEN: VP_ASSUME(BADLEN(in.len) && 16 <= in.count && in.count <= CAP);
		ret = beltCBCDecr(dest, in.src, in.count, in.key, in.len, in.iv); break;
	case CBC_D_COUNT: VP_ASSUME(OKLEN(in.len) && in.count < 16);
		ret = beltCBCDecr(dest, in.src, in.count, in.key, in.len, in.iv); break;
	/* len only */
	case CFB_E_LEN: VP_ASSUME(BADLEN(in.len) && in.count <= CAP);
		ret = beltCFBEncr(dest, in.src, in.count, in.key, in.len, in.iv); break;
	case CFB_D_LEN: VP_ASSUME(BADLEN(in.len) && in.count <= CAP);
		ret = beltCFBDecr(dest, in.src, in.count, in.key, in.len, in.iv); break;
	case CTR_LEN: VP_ASSUME(BADLEN(in.len) && in.count <= CAP);
		ret = beltCTR(dest, in.src, in.count, in.key, in.len, in.iv); break;
	case MAC_LEN: VP_ASSUME(BADLEN(in.len) && in.count <= CAP);
		ret = beltMAC(out2, in.src, in.count, in.key, in.len); break;
	case DWP_W_LEN: VP_ASSUME(BADLEN(in.len) && in.count <= CAP && in.count2 <= 16);
		ret = beltDWPWrap(dest, out2, in.src, in.count, in.src2, in.count2, in.key, in.len, in.iv); break;
	case DWP_U_LEN: VP_ASSUME(BADLEN(in.len) && in.count <= CAP && in.count2 <= 16);
		ret = beltDWPUnwrap(dest, in.src, in.count, in.src2, in.count2, in.mac, in.key, in.len, in.iv); break;
	case CHE_W_LEN: VP_ASSUME(BADLEN(in.len) && in.count <= CAP && in.count2 <= 16);
		ret = beltCHEWrap(dest, out2, in.src, in.count, in.src2, in.count2, in.key, in.len, in.iv); break;
	case CHE_U_LEN: VP_ASSUME(BADLEN(in.len) && in.count <= CAP && in.count2 <= 16);
		ret = beltCHEUnwrap(dest, in.src, in.count, in.src2, in.count2, in.mac, in.key, in.len, in.iv); break;
	/* KWP: wrap count >= 16, unwrap count >= 32 */
	case KWP_W_LEN: VP_ASSUME(BADLEN(in.len) && 16 <= in.count && in.count <= CAP);
		ret = beltKWPWrap(dest, in.src, in.count, in.hdr, in.key, in.len); break;
	case KWP_W_COUNT: VP_ASSUME(OKLEN(in.len) && in.count < 16);
		ret = beltKWPWrap(dest, in.src, in.count, in.hdr, in.key, in.len); break;
	case KWP_U_LEN: VP_ASSUME(BADLEN(in.len) && 32 <= in.count && in.count <= DCAP);
		ret = beltKWPUnwrap(dest, in.src, in.count, in.hdr, in.key, in.len); break;
	case KWP_U_COUNT: VP_ASSUME(OKLEN(in.len) && in.count < 32);
		ret = beltKWPUnwrap(dest, in.src, in.count, in.hdr, in.key, in.len); break;
	/* BDE: count % 16 == 0 && count >= 16; SDE: count % 16 == 0 && count >= 32 */
	case BDE_E_LEN: VP_ASSUME(BADLEN(in.len) && in.count % 16 == 0 && 16 <= in.count && in.count <= CAP);
		ret = beltBDEEncr(dest, in.src, in.count, in.key, in.len, in.iv); break;
	case BDE_E_COUNT: VP_ASSUME(OKLEN(in.len) && (in.count % 16 != 0 || in.count < 16) && in.count <= CAP);
		ret = beltBDEEncr(dest, in.src, in.count, in.key, in.len, in.iv); break;
	case BDE_D_LEN: VP_ASSUME(BADLEN(in.len) && in.count % 16 == 0 && 16 <= in.count && in.count <= CAP);
		ret = beltBDEDecr(dest, in.src, in.count, in.key, in.len, in.iv); break;
	case BDE_D_COUNT: VP_ASSUME(OKLEN(in.len) && (in.count % 16 != 0 || in.count < 16) && in.count <= CAP);
		ret = beltBDEDecr(dest, in.src, in.count, in.key, in.len, in.iv); break;
	case SDE_E_LEN: VP_ASSUME(BADLEN(in.len) && in.count % 16 == 0 && 32 <= in.count && in.count <= CAP);
		ret = beltSDEEncr(dest, in.src, in.count, in.key, in.len, in.iv); break;
	case SDE_E_COUNT: VP_ASSUME(OKLEN(in.len) && (in.count % 16 != 0 || in.count < 32) && in.count <= CAP);
		ret = beltSDEEncr(dest, in.src, in.count, in.key, in.len, in.iv); break;
	case SDE_D_LEN: VP_ASSUME(BADLEN(in.len) && in.count % 16 == 0 && 32 <= in.count && in.count <= CAP);
		ret = beltSDEDecr(dest, in.src, in.count, in.key, in.len, in.iv); break;
	case SDE_D_COUNT: VP_ASSUME(OKLEN(in.len) && (in.count % 16 != 0 || in.count < 32) && in.count <= CAP);
		ret = beltSDEDecr(dest, in.src, in.count, in.key, in.len, in.iv); break;
	/* KRP: n, m in {16,24,32}, m <= n */
	case KRP_N: VP_ASSUME(BADLEN(in.n) && OKLEN(in.m));
		ret = beltKRP(out2, in.m, in.key, in.n, in.level, in.hdr); break;
	case KRP_M: VP_ASSUME(OKLEN(in.n) && BADLEN(in.m));
		ret = beltKRP(out2, in.m, in.key, in.n, in.level, in.hdr); break;
	case KRP_MGTN: VP_ASSUME(OKLEN(in.n) && OKLEN(in.m) && in.m > in.n);
		ret = beltKRP(out2, in.m, in.key, in.n, in.level, in.hdr); break;
	case PBKDF2_ITER: VP_ASSUME(in.iter == 0 && in.count <= CAP && in.count2 <= 16);
		ret = beltPBKDF2(out2, in.src, in.count, in.iter, in.src2, in.count2); break;
	/* FMT: 2 <= mod <= 65536; 2 <= count; len; iv and dest disjoint; ERR_NOT_IMPLEMENTED: count <= 600 */
	case FMT_E_MODLO: VP_ASSUME(in.mod < 2 && 2 <= in.count && in.count <= CAP / 2 && OKLEN(in.len));
		ret = beltFMTEncr((u16*)dest, in.mod, (const u16*)in.src, in.count, in.key, in.len, in.iv); break;
	case FMT_E_MODHI: VP_ASSUME(in.mod > 65536 && 2 <= in.count && in.count <= CAP / 2 && OKLEN(in.len));
		ret = beltFMTEncr((u16*)dest, in.mod, (const u16*)in.src, in.count, in.key, in.len, in.iv); break;
	case FMT_E_COUNTLO: VP_ASSUME(2 <= in.mod && in.mod <= 65536 && in.count < 2 && OKLEN(in.len));
		ret = beltFMTEncr((u16*)dest, in.mod, (const u16*)in.src, in.count, in.key, in.len, in.iv); break;
	case FMT_E_LEN: VP_ASSUME(2 <= in.mod && in.mod <= 65536 && 2 <= in.count && in.count <= CAP / 2 && BADLEN(in.len));
		ret = beltFMTEncr((u16*)dest, in.mod, (const u16*)in.src, in.count, in.key, in.len, in.iv); break;
	case FMT_E_COUNTHI: VP_ASSUME(2 <= in.mod && in.mod <= 65536 && in.count > 600 && in.count <= MAXC && OKLEN(in.len));
		exp = ERR_NOT_IMPLEMENTED;
		VP_ASSUME(in.off < 2 * MAXC); probe = in.off; vp_big_dest[probe] = in.pat[0];   /* any octet of the big dest */
		ret = beltFMTEncr((u16*)vp_big_dest, in.mod, (const u16*)vp_big_src, in.count, in.key, in.len, in.iv); break;
	case FMT_E_IVOVL: VP_ASSUME(2 <= in.mod && in.mod <= 65536 && 8 <= in.count && in.count <= CAP / 2 && OKLEN(in.len));
		VP_ASSUME(in.off < 2 * in.count);   /* iv starts inside [2*count]dest (same object, DCAP >= CAP + 16) */
		ret = beltFMTEncr((u16*)dest, in.mod, (const u16*)in.src, in.count, in.key, in.len, dest + in.off); break;
	case FMT_D_MODLO: VP_ASSUME(in.mod < 2 && 2 <= in.count && in.count <= CAP / 2 && OKLEN(in.len));
		ret = beltFMTDecr((u16*)dest, in.mod, (const u16*)in.src, in.count, in.key, in.len, in.iv); break;
	case FMT_D_MODHI: VP_ASSUME(in.mod > 65536 && 2 <= in.count && in.count <= CAP / 2 && OKLEN(in.len));
		ret = beltFMTDecr((u16*)dest, in.mod, (const u16*)in.src, in.count, in.key, in.len, in.iv); break;
	case FMT_D_COUNTLO: VP_ASSUME(2 <= in.mod && in.mod <= 65536 && in.count < 2 && OKLEN(in.len));
		ret = beltFMTDecr((u16*)dest, in.mod, (const u16*)in.src, in.count, in.key, in.len, in.iv); break;
	case FMT_D_LEN: VP_ASSUME(2 <= in.mod && in.mod <= 65536 && 2 <= in.count && in.count <= CAP / 2 && BADLEN(in.len));
		ret = beltFMTDecr((u16*)dest, in.mod, (const u16*)in.src, in.count, in.key, in.len, in.iv); break;
	case FMT_D_COUNTHI: VP_ASSUME(2 <= in.mod && in.mod <= 65536 && in.count > 600 && in.count <= MAXC && OKLEN(in.len));
		exp = ERR_NOT_IMPLEMENTED;
		VP_ASSUME(in.off < 2 * MAXC); probe = in.off; vp_big_dest[probe] = in.pat[0];   /* any octet of the big dest */
		ret = beltFMTDecr((u16*)vp_big_dest, in.mod, (const u16*)vp_big_src, in.count, in.key, in.len, in.iv); break;
	case FMT_D_IVOVL: VP_ASSUME(2 <= in.mod && in.mod <= 65536 && 8 <= in.count && in.count <= CAP / 2 && OKLEN(in.len));
		VP_ASSUME(in.off < 2 * in.count);
		ret = beltFMTDecr((u16*)dest, in.mod, (const u16*)in.src, in.count, in.key, in.len, dest + in.off); break;
	/* bash.h: l > 0 && l % 16 == 0 && l <= 256 (header writes ERR_BAD_PARAM; err.h only has ERR_BAD_PARAMS) */
	case BASH_L: VP_ASSUME((in.l == 0 || in.l % 16 != 0 || in.l > 256) && in.count <= CAP);
		exp = ERR_BAD_PARAMS;
		ret = bashHash(dest, in.l, in.src, in.count); break;
	/* botp.h: Rand: ERR_BAD_PARAMS unless 6 <= digit <= 8; ERR_BAD_TIME if t == TIME_ERR;
	   Verify: ERR_BAD_PWD unless 6 <= strLen(otp) <= 8 */
	case HOTP_R_DIGIT: VP_ASSUME((in.digit < 6 || in.digit > 8) && in.len <= 32);
		exp = ERR_BAD_PARAMS;
		ret = botpHOTPRand((char*)out2, in.digit, in.key, in.len, in.ctr); break;
	case TOTP_R_DIGIT: VP_ASSUME((in.digit < 6 || in.digit > 8) && in.len <= 32);
		exp = ERR_BAD_PARAMS;
		ret = botpTOTPRand((char*)out2, in.digit, in.key, in.len, (tm_time_t)in.t); break;
	case TOTP_R_TIME: VP_ASSUME(6 <= in.digit && in.digit <= 8 && in.len <= 32 && (tm_time_t)in.t == TIME_ERR);
		exp = ERR_BAD_TIME;
		ret = botpTOTPRand((char*)out2, in.digit, in.key, in.len, (tm_time_t)in.t); break;
	case HOTP_V_DIGIT:
		in.otp[11] = 0;
		for (i = 0; i < 12 && in.otp[i]; ++i);
		VP_ASSUME((i < 6 || i > 8) && in.len <= 32);
		exp = ERR_BAD_PWD;
		ret = botpHOTPVerify(in.otp, in.key, in.len, in.ctr); break;
	case TOTP_V_DIGIT:
		in.otp[11] = 0;
		for (i = 0; i < 12 && in.otp[i]; ++i);
		VP_ASSUME((i < 6 || i > 8) && in.len <= 32);
		exp = ERR_BAD_PWD;
		ret = botpTOTPVerify(in.otp, in.key, in.len, (tm_time_t)in.t); break;
	case TOTP_V_TIME:
		in.otp[11] = 0;
		for (i = 0; i < 12 && in.otp[i]; ++i);
		VP_ASSUME(6 <= i && i <= 8 && in.len <= 32 && (tm_time_t)in.t == TIME_ERR);
		exp = ERR_BAD_TIME;
		ret = botpTOTPVerify(in.otp, in.key, in.len, (tm_time_t)in.t); break;
	/* documented disjointness conditions (\expect{ERR_BAD_INPUT}) */
	case DWP_W_OVL:   /* belt.h beltDWPWrap: "буферы dest и mac не пересекаются" */
		VP_ASSUME(OKLEN(in.len) && in.count == 16 && in.count2 == 0 && in.off < in.count);
		ret = beltDWPWrap(dest, dest + in.off, in.src, in.count, in.src2, in.count2, in.key, in.len, in.iv); break;
	case CHE_W_OVL:
		VP_ASSUME(OKLEN(in.len) && in.count == 16 && in.count2 == 0 && in.off < in.count);
		ret = beltCHEWrap(dest, dest + in.off, in.src, in.count, in.src2, in.count2, in.key, in.len, in.iv); break;
	case BRNG_HMAC_OVL:   /* brng.h brngHMACRand: "Буферы buf и iv не пересекаются" */
		VP_ASSUME(in.count == 32 && in.count2 == 16 && in.off < in.count && in.len <= 32);
		ret = brngHMACRand(dest, in.count, in.key, in.len, dest + in.off, in.count2); break;
	default: VP_ASSUME(0);
	}
	VP_WITNESS();
	VP_ASSERT((vp_pre_violated & 1) == 0, "low-level FMT functions called within their precondition 2 <= mod <= 65536");
	VP_ASSERT((vp_pre_violated & 6) == 0, "low-level FMT functions called within their preconditions on count and len");
	VP_ASSERT(ret != ERR_OK, "bad argument: an error is returned");
	VP_ASSERT(ret == exp, "bad argument: the error class named in the header is returned");
	VP_ASSERT(vp_eq(dest, in.pat, DCAP) && vp_eq(out2, in.pat2, 32), "bad argument: outputs untouched");
	VP_ASSERT(vp_big_dest[probe] == (which == FMT_E_COUNTHI || which == FMT_D_COUNTHI ? in.pat[0] : 0), "bad argument: outputs untouched (large buffer)");
	VP_ASSERT(KCALLS() == 0, "bad argument: no cipher/hash kernel or low-level step evaluated");
#undef in
}
