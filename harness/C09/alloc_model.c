/* alloc_model.c (CBMC only) - memAlloc / memFree of src/core/mem.c with bookkeeping: the real
 * bodies are malloc(count) / free(buf); under --malloc-may-fail --malloc-fail-null every malloc
 * may return NULL (one symbolic choice per call). vp_alloc_failed: some allocation failed;
 * vp_allocs / vp_frees: successful allocations / blocks handed back. */
#include <stdlib.h>
#include <bee2/core/mem.h>
unsigned vp_allocs = 0, vp_frees = 0, vp_alloc_failed = 0;
void* memAlloc(size_t count)
{
	void* p = malloc(count);
	if (p) ++vp_allocs; else vp_alloc_failed = 1;
	return p;
}
void memFree(void* buf)
{
	if (buf) ++vp_frees;
	free(buf);
}
