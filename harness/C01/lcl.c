/* C01/K: helpers of belt_lcl.c / belt_lcl.h against 128-bit integer and GF(2^128) references.
 * A block is the little-endian number of its 16 octets (STB 34.101.31, 4.2: the number of a word);
 * on this (little-endian) host that is val(u32[4]) = sum block[i] 2^(32 i) = sum word[i] 2^(B_PER_W i).
 * Field GF(2^128): the coefficient of x^i is bit i of that number, modulus x^128 + x^7 + x^2 + x + 1 (4.2, operation *).
 * All block values and ALL size_t counts are symbolic. */
#include "vp.h"
#include <bee2/core/word.h>
#include <bee2/core/u32.h>
#include <bee2/math/pp.h>
#include "crypto/belt/belt_lcl.h"

typedef unsigned __int128 V;
struct vp_in { u32 x[4]; u32 y[4]; size_t count; };

static V val32(const u32 b[4]) { return (V)b[0] | (V)b[1] << 32 | (V)b[2] << 64 | (V)b[3] << 96; }
static int is32(const u32 b[4], V v) { return b[0] == (u32)v && b[1] == (u32)(v >> 32) && b[2] == (u32)(v >> 64) && b[3] == (u32)(v >> 96); }

void h_addbits(void)
{
	VP_INPUT();
	u32 b[4]; V v = val32(in.x);
	memcpy(b, in.x, 16);
	beltBlockAddBitSizeU32(b, in.count);
	VP_WITNESS();
	/* 8 * count as an INTEGER (up to 2^67 on this host), then modulo 2^128 */
	VP_ASSERT(is32(b, v + ((V)in.count << 3)), "beltBlockAddBitSizeU32: block == block + 8*count mod 2^128");
}

void h_addbits_half(void)
{
	VP_INPUT();
	word h[W_OF_B(64)]; unsigned long long v = in.x[0] | (unsigned long long)in.x[1] << 32, r = 0; size_t i;
	memcpy(h, in.x, 8);
	beltHalfBlockAddBitSizeW(h, in.count);
	for (i = W_OF_B(64); i-- > 0;) r = (B_PER_W < 64 ? r << (B_PER_W % 64) : 0) | h[i];
	VP_WITNESS();
	VP_ASSERT(r == v + ((unsigned long long)in.count << 3), "beltHalfBlockAddBitSizeW: half block == half block + 8*count mod 2^64");
}

void h_inc(void)
{
	VP_INPUT();
	u32 b[4]; V v = val32(in.x);
	memcpy(b, in.x, 16);
	beltBlockIncU32(b);
	VP_WITNESS();
	VP_ASSERT(is32(b, v + 1), "beltBlockIncU32: block == block + 1 mod 2^128");
}

static V m_mulx(V v) { return (v << 1) ^ ((v >> 127) ? (V)0x87 : (V)0); }

void h_mulc(void)
{
	VP_INPUT();
	u32 b[4]; V v = val32(in.x);
	memcpy(b, in.x, 16);
	beltBlockMulC(b);
	VP_WITNESS();
	VP_ASSERT(is32(b, m_mulx(v)), "beltBlockMulC: block == block * x mod x^128 + x^7 + x^2 + x + 1");
}

/* block macros of belt_lcl.h */
void h_macros(void)
{
	VP_INPUT();
	u32 a[4], b[4], c[4];
	V x = val32(in.x), y = val32(in.y);
	memcpy(a, in.x, 16); memcpy(b, in.y, 16);
	VP_WITNESS();
	beltBlockXor(c, a, b);
	VP_ASSERT(is32(c, x ^ y), "beltBlockXor");
	beltBlockXor2(c, b);
	VP_ASSERT(is32(c, x), "beltBlockXor2");
	beltBlockNeg(c, a);
	VP_ASSERT(is32(c, ~x), "beltBlockNeg");
	beltBlockCopy(c, b);
	VP_ASSERT(is32(c, y), "beltBlockCopy");
	beltBlockSetZero(c);
	VP_ASSERT(is32(c, 0), "beltBlockSetZero");
	VP_ASSERT((beltHalfBlockIsZero(a) != 0) == (in.x[0] == 0 && in.x[1] == 0), "beltHalfBlockIsZero");
}

/* GF(2^128) product: bit-serial Horner reference */
void h_polymul(void)
{
	VP_INPUT();
	word a[W_OF_B(128)], b[W_OF_B(128)], c[W_OF_B(128)];
	word stack[64];
	V x = val32(in.x), y = val32(in.y), r = 0, got = 0; int i;
	memcpy(a, in.x, 16); memcpy(b, in.y, 16);
	VP_ASSERT(beltPolyMul_deep() <= sizeof(stack), "harness: stack for beltPolyMul");
	beltPolyMul(c, a, b, stack);
	for (i = 127; i >= 0; --i)
	{
		r = m_mulx(r);
		if ((y >> i) & 1) r ^= x;
	}
	for (i = W_OF_B(128); i-- > 0;) got = (B_PER_W < 128 ? got << B_PER_W : 0) | c[i];
	VP_WITNESS();
	VP_ASSERT(got == r, "beltPolyMul: c == a * b in GF(2^128) = GF(2)[x]/(x^128 + x^7 + x^2 + x + 1)");
}
