/* C01/K: belt-keyexpand (STB 34.101.31, 7.1... "key expansion"): theta = theta_1..theta_8, 32-bit words, little-endian octets;
 *   len 32: theta_i = key words;  len 16: theta_5..8 = theta_1..4;
 *   len 24: theta_7 = theta_1 ^ theta_2 ^ theta_3, theta_8 = theta_4 ^ theta_5 ^ theta_6.
 * belt.h: "the buffers key and key_ may overlap": key and key_ are placed at concrete offsets of one arena
 * (instances: equal, key_ before key, key after key_, disjoint), key octets symbolic. */
#include "vp.h"
#include <bee2/crypto/belt.h>

struct vp_in { octet key[32]; octet fill; };

static void m_expand(octet out[32], const octet key[32], size_t len)
{
	size_t i;
	for (i = 0; i < len; ++i) out[i] = key[i];
	if (len == 16) for (i = 0; i < 16; ++i) out[16 + i] = key[i];
	if (len == 24) for (i = 0; i < 4; ++i)
		out[24 + i] = key[i] ^ key[4 + i] ^ key[8 + i], out[28 + i] = key[12 + i] ^ key[16 + i] ^ key[20 + i];
}

/* which: 1 beltKeyExpand, 2 beltKeyExpand2; offsets in octets inside a 96-octet arena (multiples of 4 for which == 2) */
static void vp_body(struct vp_in* pin, size_t len, int which, size_t off_key, size_t off_out)
{
	octet exp[32]; size_t i; int ok = 1, rest = 1;
	octet* arena = (octet*)vp_alloc(96);
	for (i = 0; i < 96; ++i) arena[i] = pin->fill;
	for (i = 0; i < len; ++i) arena[off_key + i] = pin->key[i];
	m_expand(exp, pin->key, len);
	if (which == 1) beltKeyExpand(arena + off_out, arena + off_key, len);
	else beltKeyExpand2((u32*)(arena + off_out), arena + off_key, len);
	for (i = 0; i < 32; ++i) if (arena[off_out + i] != exp[i]) ok = 0;
	/* nothing outside key_ is written (key itself may be overwritten only where it overlaps key_) */
	for (i = 0; i < 96; ++i)
		if (!(off_out <= i && i < off_out + 32))
		{
			octet was = (off_key <= i && i < off_key + len) ? pin->key[i - off_key] : pin->fill;
			if (arena[i] != was) rest = 0;
		}
	VP_WITNESS();
	VP_ASSERT(ok, "beltKeyExpand/2: key_ == theta_1..theta_8 of the standard (little-endian words)");
	VP_ASSERT(rest, "beltKeyExpand/2: no octet outside key_[0..32) modified");
}
