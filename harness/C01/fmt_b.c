/* C01: FMT block count. belt_fmt.c is #included: beltFMTCalcB is file-local.
 * STB 34.101.31 (belt-fmt): a word of ZZ_mod^count is packed into b = ceil(count * log2(mod) / 64) 64-bit blocks,
 * i.e. b is the LEAST integer with mod^count <= 2^(64 b).
 * For a concrete count c:  mod^c <= 2^(64 b)  <=>  mod <= T(c,b) := floor(2^(64 b / c)); the thresholds T(c,1) < T(c,2) < ...
 * are computed by props/C01.py with exact integer c-th roots and passed as a constant table (instance arguments).
 * mod is symbolic over the whole documented domain [2, 65536] (optionally restricted to [lo, hi] to split a query). */
#include "vp.h"
#include "crypto/belt/belt_fmt.c"

struct vp_in { u32 mod; };

static void vp_body(struct vp_in* pin, size_t count, const u32* T, size_t nT, u32 lo, u32 hi)
{
	u32 mod = pin->mod; size_t b, exact = 1;
	VP_ASSUME(2 <= mod && mod <= 65536);
	VP_ASSUME(lo <= mod && mod <= hi);
	while (exact <= nT && mod > T[exact - 1]) ++exact;
	b = beltFMTCalcB(mod, count);
	VP_WITNESS();
	VP_ASSERT(exact <= nT, "harness: threshold table covers mod");
	VP_ASSERT(b == exact, "beltFMTCalcB(mod, count) == ceil(count*log2(mod)/64) (least b with mod^count <= 2^(64b))");
}
