/* C01/G: belt modes against the algorithms of STB 34.101.31 over an UNINTERPRETED block cipher.
 * The reference below is written from the standard (6.2 ECB, 6.3 CBC, 6.4 CFB, 6.5 CTR, 6.6 MAC); F = beltBlockEncr and
 * F^-1 = beltBlockDecr are the same entry points the library calls (stubs/belt_block_uf.c: an uninterpreted bijection),
 * theta = beltKeyExpand2(key) (real code, verified against the standard by c01_keyexpand). Lengths are concrete per
 * instance; message, key, IV symbolic. For each length:
 *   library Encr(X) == model Encr(X);  library Decr(Y) == model Decr(Y) for an ARBITRARY Y;  library Decr(library Encr(X)) == X.
 * MODE: 1 ECB, 2 CBC, 3 CFB, 4 CTR, 5 MAC */
#include "vp.h"
#include <bee2/core/err.h>
#include <bee2/crypto/belt.h>
#ifndef MAXN
#define MAXN 64
#endif
#ifndef MODE
#define MODE 1
#endif
struct vp_in { octet msg[MAXN]; octet ct[MAXN]; octet key[32]; octet iv[16]; };

static void F(octet b[16], const u32 th[8]) { beltBlockEncr(b, th); }
static void Fi(octet b[16], const u32 th[8]) { beltBlockDecr(b, th); }
static void cp(octet* d, const octet* s, size_t n) { size_t i; for (i = 0; i < n; ++i) d[i] = s[i]; }
static void xr(octet* d, const octet* s, size_t n) { size_t i; for (i = 0; i < n; ++i) d[i] ^= s[i]; }

/* X = X_1 || ... || X_nb, |X_i| = 16 for i < nb, 0 < |X_nb| = tail <= 16 (n >= 1) */
#define NB(n) (((n) + 15) / 16)
#define TAIL(n) ((n) - 16 * (NB(n) - 1))

/* 6.2 ECB; dec = 0: F, dec = 1: F^-1 (the two algorithms differ only in the permutation applied) */
static void m_ecb(octet* Y, const octet* X, size_t n, const u32 th[8], int dec)
{
	size_t nb = NB(n), tail = TAIL(n), i; octet t[16], u[16];
	for (i = 0; i + 2 < nb; ++i) { cp(t, X + 16 * i, 16); if (dec) Fi(t, th); else F(t, th); cp(Y + 16 * i, t, 16); }
	if (tail == 16)
	{
		for (i = (nb >= 2 ? nb - 2 : 0); i < nb; ++i) { cp(t, X + 16 * i, 16); if (dec) Fi(t, th); else F(t, th); cp(Y + 16 * i, t, 16); }
	}
	else
	{
		/* (Y_n || r) <- F(X_{n-1});  Y_{n-1} <- F(X_n || r) */
		cp(t, X + 16 * (nb - 2), 16); if (dec) Fi(t, th); else F(t, th);
		cp(Y + 16 * (nb - 1), t, tail);
		cp(u, X + 16 * (nb - 1), tail); cp(u + tail, t + tail, 16 - tail);
		if (dec) Fi(u, th); else F(u, th);
		cp(Y + 16 * (nb - 2), u, 16);
	}
}
/* 6.3 CBC encryption: Y_0 = S; Y_i = F(X_i ^ Y_{i-1}); stealing: (Y_n || r) <- F(X_{n-1} ^ Y_{n-2}); Y_{n-1} <- F((X_n ^ Y_n) || r) */
static void m_cbc_e(octet* Y, const octet* X, size_t n, const u32 th[8], const octet S[16])
{
	size_t nb = NB(n), tail = TAIL(n), i; octet prev[16], t[16], u[16];
	cp(prev, S, 16);
	for (i = 0; i + 2 < nb; ++i) { cp(t, X + 16 * i, 16); xr(t, prev, 16); F(t, th); cp(Y + 16 * i, t, 16); cp(prev, t, 16); }
	if (tail == 16)
	{
		for (i = (nb >= 2 ? nb - 2 : 0); i < nb; ++i) { cp(t, X + 16 * i, 16); xr(t, prev, 16); F(t, th); cp(Y + 16 * i, t, 16); cp(prev, t, 16); }
	}
	else
	{
		cp(t, X + 16 * (nb - 2), 16); xr(t, prev, 16); F(t, th);
		cp(Y + 16 * (nb - 1), t, tail);
		cp(u, X + 16 * (nb - 1), tail); xr(u, t, tail); cp(u + tail, t + tail, 16 - tail);
		F(u, th);
		cp(Y + 16 * (nb - 2), u, 16);
	}
}
/* 6.3 CBC decryption: X_i = F^-1(Y_i) ^ Y_{i-1}; stealing: (X_n || r) <- F^-1(Y_{n-1}) ^ (Y_n || 0); X_{n-1} <- F^-1(Y_n || r) ^ Y_{n-2} */
static void m_cbc_d(octet* X, const octet* Y, size_t n, const u32 th[8], const octet S[16])
{
	size_t nb = NB(n), tail = TAIL(n), i; octet prev[16], t[16], u[16];
	cp(prev, S, 16);
	for (i = 0; i + 2 < nb; ++i) { cp(t, Y + 16 * i, 16); Fi(t, th); xr(t, prev, 16); cp(X + 16 * i, t, 16); cp(prev, Y + 16 * i, 16); }
	if (tail == 16)
	{
		for (i = (nb >= 2 ? nb - 2 : 0); i < nb; ++i) { cp(t, Y + 16 * i, 16); Fi(t, th); xr(t, prev, 16); cp(X + 16 * i, t, 16); cp(prev, Y + 16 * i, 16); }
	}
	else
	{
		cp(t, Y + 16 * (nb - 2), 16); Fi(t, th); xr(t, Y + 16 * (nb - 1), tail);	/* t = X_n || r */
		cp(X + 16 * (nb - 1), t, tail);
		cp(u, Y + 16 * (nb - 1), tail); cp(u + tail, t + tail, 16 - tail);
		Fi(u, th); xr(u, prev, 16);
		cp(X + 16 * (nb - 2), u, 16);
	}
}
/* 6.4 CFB: Y_0 = S; Y_i = X_i ^ L(F(Y_{i-1})); decryption X_i = Y_i ^ L(F(Y_{i-1})) */
static void m_cfb(octet* O, const octet* I, size_t n, const u32 th[8], const octet S[16], int dec)
{
	size_t pos = 0, l; octet g[16];
	cp(g, S, 16);
	while (pos < n)
	{
		l = n - pos < 16 ? n - pos : 16;
		F(g, th);
		cp(O + pos, I + pos, l); xr(O + pos, g, l);
		if (l == 16) cp(g, dec ? I + pos : O + pos, 16);
		pos += l;
	}
}
/* 6.5 CTR: s = F(S); for each block: s = s + 1 mod 2^128 (little-endian number), Y_i = X_i ^ L(F(s)) */
static void m_ctr(octet* O, const octet* I, size_t n, const u32 th[8], const octet S[16])
{
	size_t pos = 0, l, j; octet s[16], g[16];
	cp(s, S, 16); F(s, th);
	while (pos < n)
	{
		unsigned c = 1;
		l = n - pos < 16 ? n - pos : 16;
		for (j = 0; j < 16; ++j) { c += s[j]; s[j] = (octet)c; c >>= 8; }
		cp(g, s, 16); F(g, th);
		cp(O + pos, I + pos, l); xr(O + pos, g, l);
		pos += l;
	}
}
/* 6.6 MAC: s = 0, r = F(0); s = F(s ^ X_i), i < n; last: |X_n| = 128: s ^= X_n ^ phi1(r), else s ^= psi(X_n) ^ phi2(r); T = L_64(F(s));
 * phi1(u1||u2||u3||u4) = u2||u3||u4||(u1^u2), phi2 = (u1^u4)||u1||u2||u3, psi(u) = u || 0x80 || 0..; empty X: one empty block */
static void m_mac(octet T[8], const octet* X, size_t n, const u32 th[8])
{
	octet s[16] = { 0 }, r[16] = { 0 }, p[16], last[16]; size_t nb = n ? NB(n) : 1, tail = n ? TAIL(n) : 0, i;
	F(r, th);
	for (i = 0; i + 1 < nb; ++i) { xr(s, X + 16 * i, 16); F(s, th); }
	if (tail == 16)
	{
		cp(last, X + 16 * (nb - 1), 16);
		cp(p, r + 4, 12); cp(p + 12, r, 4); xr(p + 12, r + 4, 4);
	}
	else
	{
		for (i = 0; i < 16; ++i) last[i] = 0;
		cp(last, X + 16 * (nb - 1), tail); last[tail] = 0x80;
		cp(p, r, 4); xr(p, r + 12, 4); cp(p + 4, r, 12);
	}
	xr(s, last, 16); xr(s, p, 16); F(s, th);
	cp(T, s, 8);
}

static void vp_body(struct vp_in* pin, size_t n, size_t key_len)
{
	u32 th[8];
	octet* got = (octet*)vp_alloc(n ? n : 1); octet* back = (octet*)vp_alloc(n ? n : 1); octet* gotd = (octet*)vp_alloc(n ? n : 1);
	octet expe[MAXN + 16], expd[MAXN + 16];
	octet* src = (octet*)vp_dup(pin->msg, n ? n : 1); octet* srcd = (octet*)vp_dup(pin->ct, n ? n : 1);
	octet* key = (octet*)vp_dup(pin->key, key_len);
	err_t e1 = ERR_OK, e2 = ERR_OK, e3 = ERR_OK;
	VP_ASSUME(n <= MAXN);
	beltKeyExpand2(th, pin->key, key_len);
#if MODE == 1
	e1 = beltECBEncr(got, src, n, key, key_len);
	e2 = beltECBDecr(gotd, srcd, n, key, key_len);
	e3 = beltECBDecr(back, got, n, key, key_len);
	m_ecb(expe, pin->msg, n, th, 0); m_ecb(expd, pin->ct, n, th, 1);
#elif MODE == 2
	e1 = beltCBCEncr(got, src, n, key, key_len, pin->iv);
	e2 = beltCBCDecr(gotd, srcd, n, key, key_len, pin->iv);
	e3 = beltCBCDecr(back, got, n, key, key_len, pin->iv);
	m_cbc_e(expe, pin->msg, n, th, pin->iv); m_cbc_d(expd, pin->ct, n, th, pin->iv);
#elif MODE == 3
	e1 = beltCFBEncr(got, src, n, key, key_len, pin->iv);
	e2 = beltCFBDecr(gotd, srcd, n, key, key_len, pin->iv);
	e3 = beltCFBDecr(back, got, n, key, key_len, pin->iv);
	m_cfb(expe, pin->msg, n, th, pin->iv, 0); m_cfb(expd, pin->ct, n, th, pin->iv, 1);
#elif MODE == 4
	e1 = beltCTR(got, src, n, key, key_len, pin->iv);
	e2 = beltCTR(gotd, srcd, n, key, key_len, pin->iv);
	e3 = beltCTR(back, got, n, key, key_len, pin->iv);
	m_ctr(expe, pin->msg, n, th, pin->iv); m_ctr(expd, pin->ct, n, th, pin->iv);
#endif
	VP_WITNESS();
#if MODE == 5
	{ octet mac[8], exp[8]; err_t e = beltMAC(mac, src, n, key, key_len);
	  m_mac(exp, pin->msg, n, th);
	  VP_ASSERT(e == ERR_OK, "beltMAC returns ERR_OK");
	  VP_ASSERT(vp_eq(mac, exp, 8), "beltMAC == belt-mac of the standard");
	  { void* st = vp_alloc(beltMAC_keep()); bool_t ok;
	    beltMACStart(st, key, key_len); beltMACStepA(src, n, st);
	    ok = beltMACStepV(exp, st);
	    VP_ASSERT(ok, "beltMACStepV accepts the standard's tag");
	    ok = beltMACStepV(pin->ct, st);
	    VP_ASSERT((ok != 0) == vp_eq(pin->ct, exp, 8), "beltMACStepV accepts a tag iff it equals the standard's tag"); } }
#else
	VP_ASSERT(e1 == ERR_OK && e2 == ERR_OK && e3 == ERR_OK, "Encr/Decr return ERR_OK on admissible input");
	VP_ASSERT(vp_eq(got, expe, n), "library encryption == encryption algorithm of the standard");
	VP_ASSERT(vp_eq(gotd, expd, n), "library decryption == decryption algorithm of the standard (arbitrary ciphertext)");
	VP_ASSERT(vp_eq(back, pin->msg, n), "Decr(Encr(X)) == X");
#endif
}
