/* C01/G: authenticated wrapping (DWP, CHE, KWP) over the uninterpreted block cipher (bijection) and, for DWP/CHE, an
 * uninterpreted GF(2^128) product: lengths concrete per instance, all data symbolic.
 *   (1) Unwrap(Wrap(X, I)) == OK and returns X;
 *   (2) Unwrap accepts an ARBITRARY triple (Y, I, T) if and only if it is an output of Wrap under the same key and IV:
 *       DWP/CHE: with X' = decryption of Y without authentication (DWP: beltCTR, see c01_mode_ctr; CHE: beltCHEStart + beltCHEStepD), Wrap(X', I) == (Y, T') and accept <=> T == T';
 *                on acceptance dest == X'; on rejection the error is ERR_BAD_MAC
 *       KWP:     accept => Wrap(dest, header) == token; reject => Wrap(X, header) != token for every X; error ERR_BAD_KEYTOKEN.
 * MODE: 1 DWP, 2 CHE, 3 KWP */
#include "vp.h"
#include <bee2/core/err.h>
#include <bee2/crypto/belt.h>
#ifndef MAXN
#define MAXN 48
#endif
#ifndef MODE
#define MODE 1
#endif
struct vp_in { octet x[MAXN]; octet y[MAXN + 16]; octet ad[MAXN]; octet tag[8]; octet hdr[16]; octet key[32]; octet iv[16]; };
#if MODE == 1
#define WRAP beltDWPWrap
#define UNWRAP beltDWPUnwrap
#elif MODE == 2
#define WRAP beltCHEWrap
#define UNWRAP beltCHEUnwrap
#endif

static void vp_body(struct vp_in* pin, size_t n1, size_t n2, size_t key_len)
{
	octet* key = (octet*)vp_dup(pin->key, key_len);
	VP_ASSUME(n1 <= MAXN && n2 <= MAXN);
#if MODE == 1 || MODE == 2
	{
		octet* x = (octet*)vp_dup(pin->x, n1 ? n1 : 1); octet* ad = (octet*)vp_dup(pin->ad, n2 ? n2 : 1);
		octet* y = (octet*)vp_alloc(n1 ? n1 : 1); octet* back = (octet*)vp_alloc(n1 ? n1 : 1);
		octet tag[8], tag3[8]; err_t e1, e2, e3, e4, e5;
		octet* y2 = (octet*)vp_dup(pin->y, n1 ? n1 : 1); octet* x2 = (octet*)vp_alloc(n1 ? n1 : 1);
		octet* d2 = (octet*)vp_alloc(n1 ? n1 : 1); octet* y3 = (octet*)vp_alloc(n1 ? n1 : 1); size_t i;
		e1 = WRAP(y, tag, x, n1, ad, n2, key, key_len, pin->iv);
		e2 = UNWRAP(back, y, n1, ad, n2, tag, key, key_len, pin->iv);
		for (i = 0; i < n1; ++i) d2[i] = 0xA5;
		e3 = UNWRAP(d2, y2, n1, ad, n2, pin->tag, key, key_len, pin->iv);
#if MODE == 1
		e4 = beltCTR(x2, y2, n1, key, key_len, pin->iv);	/* belt-dwp encrypts with the belt-ctr keystream */
#else
		{ void* st = vp_alloc(beltCHE_keep()); beltCHEStart(st, key, key_len, pin->iv);	/* belt-che keystream, no authentication */
		  for (i = 0; i < n1; ++i) x2[i] = y2[i];
		  beltCHEStepD(x2, n1, st); e4 = ERR_OK; }
#endif
		e5 = WRAP(y3, tag3, x2, n1, ad, n2, key, key_len, pin->iv);
		VP_WITNESS();
		VP_ASSERT(e1 == ERR_OK && e4 == ERR_OK && e5 == ERR_OK, "Wrap returns ERR_OK");
		VP_ASSERT(e2 == ERR_OK && vp_eq(back, pin->x, n1), "Unwrap(Wrap(X, I)) == OK, X");
		VP_ASSERT(vp_eq(y3, pin->y, n1), "Wrap re-encrypts the decryption of Y to Y");
		VP_ASSERT((e3 == ERR_OK) == vp_eq(pin->tag, tag3, 8), "Unwrap accepts (Y, I, T) iff T is the tag Wrap produces for (Y, I) under the same key and IV");
		VP_ASSERT(e3 == ERR_OK || e3 == ERR_BAD_MAC, "Unwrap: ERR_OK or ERR_BAD_MAC");
		VP_ASSERT(e3 != ERR_OK || vp_eq(d2, x2, n1), "accepted: dest == decryption of Y");
	}
#else
	{
		/* n1 = length of the wrapped key (>= 16); n2 != 0: null header (zero header) */
		octet* x = (octet*)vp_dup(pin->x, n1); octet* tok = (octet*)vp_alloc(n1 + 16); octet* back = (octet*)vp_alloc(n1);
		octet* tok2 = (octet*)vp_dup(pin->y, n1 + 16); octet* d2 = (octet*)vp_alloc(n1); octet* tok3 = (octet*)vp_alloc(n1 + 16);
		const octet* hdr = n2 ? (const octet*)0 : (const octet*)pin->hdr; err_t e1, e2, e3, e4;
		e1 = beltKWPWrap(tok, x, n1, hdr, key, key_len);
		e2 = beltKWPUnwrap(back, tok, n1 + 16, hdr, key, key_len);
		e3 = beltKWPUnwrap(d2, tok2, n1 + 16, hdr, key, key_len);
		VP_WITNESS();
		VP_ASSERT(e1 == ERR_OK, "KWPWrap returns ERR_OK");
		VP_ASSERT(e2 == ERR_OK && vp_eq(back, pin->x, n1), "KWPUnwrap(KWPWrap(X, header)) == OK, X");
		VP_ASSERT(e3 == ERR_OK || e3 == ERR_BAD_KEYTOKEN, "KWPUnwrap: ERR_OK or ERR_BAD_KEYTOKEN");
		if (e3 == ERR_OK)
		{
			e4 = beltKWPWrap(tok3, d2, n1, hdr, key, key_len);
			VP_ASSERT(e4 == ERR_OK && vp_eq(tok3, pin->y, n1 + 16), "accepted token == KWPWrap(dest, header) under the same key");
		}
		else
			VP_ASSERT(!vp_eq(tok, pin->y, n1 + 16), "rejected token is not KWPWrap(X, header) for any X");
	}
#endif
}
