/* C01/K: the belt block cipher of the real src/crypto/belt/belt_block.c against STB 34.101.31 (6.1).
 *
 * belt_block.c is #included, so the file-local tables H5/H13/H21/H29 and the macros G5/G13/G21, R,
 * subkey_e/subkey_d, E, D are the shipped ones (do not list belt_block.c in srcs of these obligations).
 *
 * Reference, written from the standard (not from the code):
 *   - H: the S-box. Its 256 values are appendix DATA of the standard; the table beltH() of the library is
 *     taken as that data. h_Hgen additionally checks it against the generator the standard gives for it
 *     (H(10) = 0, H(11) = 0x8E, H(x) = LFSR^116(H(x-1)), feedback mask 0x63), see the comment in belt_block.c.
 *   - G_r(u) = RotHi^r(H(u1) || H(u2) || H(u3) || H(u4)), u = u1||u2||u3||u4 octets, words little-endian:
 *     u1 is the least significant octet, RotHi is the rotation towards the high-order bits.
 *   - tact keys K[1..56] = theta_1..theta_8 repeated 7 times.
 *   - encryption 6.1.3 / decryption 6.1.4: m_encr / m_decr below.
 *
 * Proof structure (every step a solver query over ALL inputs):
 *   (i)   h_G:        macros G5/G13/G21 (4 lookups in rotated tables) == G_r of the standard, all 2^32 arguments
 *   (ii)  h_R_*:      one expansion of macro R (both key orders) == steps 1)-9) of the standard's tact i
 *   (iii) h_wireE/D:  macros E / D with G5/G13/G21 re-#defined as UNINTERPRETED functions == m_encr / m_decr
 *                     over the same uninterpreted functions: register renaming, tact-key indices, the
 *                     final permutation are right for every choice of the G functions
 *   (iv)  h_invDE/ED: D(E(x)) == x and E(D(x)) == x for every choice of the G functions
 *   (v)   h_fn_*:     the exported functions beltBlockEncr/2/3, beltBlockDecr/2/3 == the macros E / D expanded
 *                     with the REAL G macros (pointer passing, octet <-> u32 view)
 *   (i)+(iii)+(v) => beltBlock{Encr,Decr}* == standard; (iv)+(v) => Decr inverts Encr.
 *   h_mono_*: the direct monolithic miter real function == m_encr over the real S-box (expected UNDECIDED).
 */
#include "vp.h"
#include "crypto/belt/belt_block.c"

/* ------------------------------------------------------------------ reference model */
static int vp_uf;	/* 1: the model's G functions are the uninterpreted ones */
#ifdef VP_CBMC
u32 __CPROVER_uninterpreted_vpG5(u32);
u32 __CPROVER_uninterpreted_vpG13(u32);
u32 __CPROVER_uninterpreted_vpG21(u32);
#define UF5(x) __CPROVER_uninterpreted_vpG5(x)
#define UF13(x) __CPROVER_uninterpreted_vpG13(x)
#define UF21(x) __CPROVER_uninterpreted_vpG21(x)
#endif

static u32 m_rothi(u32 x, unsigned r) { return (x << r) | (x >> (32 - r)); }
static u32 m_Gstd(u32 u, unsigned r)
{
	const octet* h = beltH();
	u32 v = (u32)h[u & 255] | (u32)h[(u >> 8) & 255] << 8 | (u32)h[(u >> 16) & 255] << 16 | (u32)h[u >> 24] << 24;
	return m_rothi(v, r);
}
static u32 m_G(u32 u, unsigned r)
{
#ifdef VP_CBMC
	if (vp_uf) return r == 5 ? UF5(u) : r == 13 ? UF13(u) : UF21(u);
#endif
	return m_Gstd(u, r);
}
/* K[j], j = 1..56 */
#define MK(j) theta[((j) - 1) % 8]

static void m_tact_e(u32* a, u32* b, u32* c, u32* d, const u32 theta[8], u32 i)
{
	u32 e;
	*b ^= m_G(*a + MK(7 * i - 6), 5);
	*c ^= m_G(*d + MK(7 * i - 5), 21);
	*a -= m_G(*b + MK(7 * i - 4), 13);
	e = m_G(*b + *c + MK(7 * i - 3), 21) ^ i;
	*b += e;
	*c -= e;
	*d += m_G(*c + MK(7 * i - 2), 13);
	*b ^= m_G(*a + MK(7 * i - 1), 21);
	*c ^= m_G(*d + MK(7 * i), 5);
}
static void m_tact_d(u32* a, u32* b, u32* c, u32* d, const u32 theta[8], u32 i)
{
	u32 e;
	*b ^= m_G(*a + MK(7 * i), 5);
	*c ^= m_G(*d + MK(7 * i - 1), 21);
	*a -= m_G(*b + MK(7 * i - 2), 13);
	e = m_G(*b + *c + MK(7 * i - 3), 21) ^ i;
	*b += e;
	*c -= e;
	*d += m_G(*c + MK(7 * i - 4), 13);
	*b ^= m_G(*a + MK(7 * i - 5), 21);
	*c ^= m_G(*d + MK(7 * i - 6), 5);
}
#define M_SWAP(x, y) do { u32 t_ = x; x = y; y = t_; } while (0)
static void m_encr(u32 y[4], const u32 x[4], const u32 theta[8])
{
	u32 a = x[0], b = x[1], c = x[2], d = x[3], i;
	for (i = 1; i <= 8; ++i)
	{
		m_tact_e(&a, &b, &c, &d, theta, i);
		M_SWAP(a, b); M_SWAP(c, d); M_SWAP(b, c);
	}
	y[0] = b, y[1] = d, y[2] = a, y[3] = c;
}
static void m_decr(u32 x[4], const u32 y[4], const u32 theta[8])
{
	u32 a = y[0], b = y[1], c = y[2], d = y[3], i;
	for (i = 8; i >= 1; --i)
	{
		m_tact_d(&a, &b, &c, &d, theta, i);
		M_SWAP(a, b); M_SWAP(c, d); M_SWAP(a, d);
	}
	x[0] = c, x[1] = a, x[2] = d, x[3] = b;
}

/* ------------------------------------------------------------------ macros with the real G */
static void mac_E_real(u32* a, u32* b, u32* c, u32* d, const u32* K) { E(a, b, c, d, K); }
static void mac_D_real(u32* a, u32* b, u32* c, u32* d, const u32* K) { D(a, b, c, d, K); }
static u32 mac_G5(u32 x) { return G5(x); }
static u32 mac_G13(u32 x) { return G13(x); }
static u32 mac_G21(u32 x) { return G21(x); }
#define R_FN(name, sk) static void name(u32* a, u32* b, u32* c, u32* d, const u32* K, u32 i) { R(a, b, c, d, K, i, sk); }
R_FN(mac_R_e, subkey_e)
R_FN(mac_R_d, subkey_d)

/* ------------------------------------------------------------------ macros with uninterpreted G
 * (macro expansion is lazy: E -> R -> G5 picks up the definitions below; natively, in replay, the real ones stay) */
#ifdef VP_CBMC
#undef G5
#undef G13
#undef G21
#define G5(x) UF5(x)
#define G13(x) UF13(x)
#define G21(x) UF21(x)
#endif
static void mac_E_uf(u32* a, u32* b, u32* c, u32* d, const u32* K) { E(a, b, c, d, K); }
static void mac_D_uf(u32* a, u32* b, u32* c, u32* d, const u32* K) { D(a, b, c, d, K); }

/* ------------------------------------------------------------------ obligations */
struct vp_in { u32 x[4]; u32 theta[8]; u32 u; octet j; };

/* S-box table against its generator */
void h_Hgen(void)
{
	VP_INPUT();
	const octet* h = beltH();
	octet j = in.j; unsigned t = h[(octet)(j - 1)], i;
	for (i = 0; i < 116; ++i)
	{
		unsigned m = t & 0x63, p = (m ^ (m >> 1) ^ (m >> 5) ^ (m >> 6)) & 1;
		t = t >> 1 | p << 7;
	}
	VP_WITNESS();
	VP_ASSERT(h[10] == 0 && h[11] == 0x8E, "H(10) == 0x00, H(11) == 0x8E");
	VP_ASSERT(j == 10 || j == 11 || h[j] == (octet)t, "H(j) == LFSR^116(H(j-1)) for every j except the two seeds");
}

/* (i) */
void h_G(void)
{
	VP_INPUT();
	u32 g5 = mac_G5(in.u), g13 = mac_G13(in.u), g21 = mac_G21(in.u);
	VP_WITNESS();
	VP_ASSERT(g5 == m_Gstd(in.u, 5), "macro G5(u) == RotHi^5(H(u1)||H(u2)||H(u3)||H(u4))");
	VP_ASSERT(g13 == m_Gstd(in.u, 13), "macro G13(u) == RotHi^13(H(u1)||H(u2)||H(u3)||H(u4))");
	VP_ASSERT(g21 == m_Gstd(in.u, 21), "macro G21(u) == RotHi^21(H(u1)||H(u2)||H(u3)||H(u4))");
}

/* (ii) one tact; i concrete by instance, dec = key order */
static void vp_body(struct vp_in* pin, unsigned i, int dec)
{
	u32 a = pin->x[0], b = pin->x[1], c = pin->x[2], d = pin->x[3];
	u32 ma = a, mb = b, mc = c, md = d;
	vp_uf = 0;
	if (dec) mac_R_d(&a, &b, &c, &d, pin->theta, i), m_tact_d(&ma, &mb, &mc, &md, pin->theta, i);
	else mac_R_e(&a, &b, &c, &d, pin->theta, i), m_tact_e(&ma, &mb, &mc, &md, pin->theta, i);
	VP_WITNESS();
	VP_ASSERT(a == ma && b == mb && c == mc && d == md, "macro R (real G boxes) == steps 1)-9) of tact i of the standard");
}

/* (iii) */
void h_wireE(void)
{
	VP_INPUT();
	u32 y[4], m[4];
	vp_uf = 1;
	memcpy(y, in.x, 16);
	mac_E_uf(y, y + 1, y + 2, y + 3, in.theta);
	m_encr(m, in.x, in.theta);
	VP_WITNESS();
	VP_ASSERT(y[0] == m[0] && y[1] == m[1] && y[2] == m[2] && y[3] == m[3], "macro E over arbitrary G functions == encryption algorithm of the standard over the same G");
}
void h_wireD(void)
{
	VP_INPUT();
	u32 y[4], m[4];
	vp_uf = 1;
	memcpy(y, in.x, 16);
	mac_D_uf(y, y + 1, y + 2, y + 3, in.theta);
	m_decr(m, in.x, in.theta);
	VP_WITNESS();
	VP_ASSERT(y[0] == m[0] && y[1] == m[1] && y[2] == m[2] && y[3] == m[3], "macro D over arbitrary G functions == decryption algorithm of the standard over the same G");
}
/* (iv) */
void h_invDE(void)
{
	VP_INPUT();
	u32 y[4];
	memcpy(y, in.x, 16);
	mac_E_uf(y, y + 1, y + 2, y + 3, in.theta);
	mac_D_uf(y, y + 1, y + 2, y + 3, in.theta);
	VP_WITNESS();
	VP_ASSERT(y[0] == in.x[0] && y[1] == in.x[1] && y[2] == in.x[2] && y[3] == in.x[3], "D(E(x)) == x for arbitrary G functions");
}
void h_invED(void)
{
	VP_INPUT();
	u32 y[4];
	memcpy(y, in.x, 16);
	mac_D_uf(y, y + 1, y + 2, y + 3, in.theta);
	mac_E_uf(y, y + 1, y + 2, y + 3, in.theta);
	VP_WITNESS();
	VP_ASSERT(y[0] == in.x[0] && y[1] == in.x[1] && y[2] == in.x[2] && y[3] == in.x[3], "E(D(y)) == y for arbitrary G functions");
}
/* standard's decryption inverts the standard's encryption, same argument on the model alone */
void h_inv_model(void)
{
	VP_INPUT();
	u32 y[4], z[4];
	vp_uf = 1;
	m_encr(y, in.x, in.theta);
	m_decr(z, y, in.theta);
	VP_WITNESS();
	VP_ASSERT(z[0] == in.x[0] && z[1] == in.x[1] && z[2] == in.x[2] && z[3] == in.x[3], "model: decr(encr(x)) == x");
}

/* (v) exported functions == macro expansion (real G on both sides) */
#ifndef FN
#define FN 2
#endif
static void vp_call(u32 y[4], const u32 x[4], const u32* K, int dec)
{
	memcpy(y, x, 16);
#if FN == 1
	/* octet entry point: the 16 octets are the four words in little-endian order (this host: OCTET_ORDER == LITTLE_ENDIAN,
	 * the big-endian branch of beltBlockEncr is not compiled), so the block is handed over through its word view */
	if (dec) beltBlockDecr((octet*)y, K); else beltBlockEncr((octet*)y, K);
#elif FN == 2
	if (dec) beltBlockDecr2(y, K); else beltBlockEncr2(y, K);
#else
	if (dec) beltBlockDecr3(y, y + 1, y + 2, y + 3, K); else beltBlockEncr3(y, y + 1, y + 2, y + 3, K);
#endif
}
void h_fn_E(void)
{
	VP_INPUT();
	u32 y[4], m[4];
	vp_call(y, in.x, in.theta, 0);
	memcpy(m, in.x, 16);
	mac_E_real(m, m + 1, m + 2, m + 3, in.theta);
	VP_WITNESS();
	VP_ASSERT(y[0] == m[0] && y[1] == m[1] && y[2] == m[2] && y[3] == m[3], "beltBlockEncr* == macro E on the four little-endian words of the block");
}
void h_fn_D(void)
{
	VP_INPUT();
	u32 y[4], m[4];
	vp_call(y, in.x, in.theta, 1);
	memcpy(m, in.x, 16);
	mac_D_real(m, m + 1, m + 2, m + 3, in.theta);
	VP_WITNESS();
	VP_ASSERT(y[0] == m[0] && y[1] == m[1] && y[2] == m[2] && y[3] == m[3], "beltBlockDecr* == macro D on the four little-endian words of the block");
}
/* monolithic miters over the real S-box */
void h_mono_E(void)
{
	VP_INPUT();
	u32 y[4], m[4];
	vp_uf = 0;
	vp_call(y, in.x, in.theta, 0);
	m_encr(m, in.x, in.theta);
	VP_WITNESS();
	VP_ASSERT(y[0] == m[0] && y[1] == m[1] && y[2] == m[2] && y[3] == m[3], "beltBlockEncr* == encryption algorithm of the standard (real S-box, monolithic)");
}
void h_mono_DE(void)
{
	VP_INPUT();
	u32 y[4], z[4];
	vp_call(y, in.x, in.theta, 0);
	vp_call(z, y, in.theta, 1);
	VP_WITNESS();
	VP_ASSERT(z[0] == in.x[0] && z[1] == in.x[1] && z[2] == in.x[2] && z[3] == in.x[3], "beltBlockDecr*(beltBlockEncr*(x)) == x (real S-box, monolithic)");
}
