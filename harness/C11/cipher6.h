/* C11 template for err_t F(void* dest, const void* src, size_t count, const octet key[], size_t len, const octet iv[16])
 * (beltCBCEncr/Decr, beltCFBEncr/Decr, beltCTR, beltBDEEncr/Decr, beltSDEEncr/Decr; belt.h: "Буферы могут пересекаться"
 * without exceptions: dest/src at any relative offset, key and iv anywhere incl. inside dest or src).
 * Including file defines FUNC and FNAME. Instance arguments: count, arena offsets of src, dest, key, iv, key length. */
#include "ovl.h"
#include <bee2/crypto/belt.h>
#ifndef MAXN
#define MAXN 48
#endif
/* reference layout: pairwise disjoint windows of R */
#define R_DST 8
#define R_SRC (R_DST + MAXN + 16)
#define R_KEY (R_SRC + MAXN + 16)
#define R_IV (R_KEY + 32 + 16)
static void vp_body(struct vp_in* pin, size_t n, size_t so, size_t dso, size_t ko, size_t io, size_t key_len)
{
	err_t e1, e2;
	VP_ASSUME(n <= MAXN && (key_len == 16 || key_len == 24 || key_len == 32));
	C11_IN(so, n); C11_IN(dso, n); C11_IN(ko, key_len); C11_IN(io, 16);
	VP_ASSUME(R_IV + 16 <= RSZ);
	C11_LOAD();
	c11_cp(R + R_SRC, A + so, n);
	c11_cp(R + R_KEY, A + ko, key_len);
	c11_cp(R + R_IV, A + io, 16);
	e1 = FUNC(A + dso, A + so, n, A + ko, key_len, A + io);
	e2 = FUNC(R + R_DST, R + R_SRC, n, R + R_KEY, key_len, R + R_IV);
	VP_WITNESS();
	VP_ASSERT(e1 == e2, FNAME ": return code with overlapping buffers == return code with disjoint buffers");
	VP_ASSERT(e1 != ERR_OK || vp_eq(A + dso, R + R_DST, n), FNAME ": output with overlapping buffers == output with disjoint buffers");
}
