/* C11: beltKWPWrap / beltKWPUnwrap (belt.h: "Буферы могут пересекаться", no exception listed).
 *   Wrap:   [count+16]dest <- [count]src, header[16] (or 0), key      (count >= 16)
 *   Unwrap: [count-16]dest <- [count]src, header[16] (or 0), key      (count >= 32)
 * Instance arguments: count, arena offsets of src, dest, header (NOHDR = null pointer), key; key length. */
#include "ovl.h"
#include <bee2/crypto/belt.h>
#ifndef MAXN
#define MAXN 48
#endif
#define NOHDR 99999
#define R_DST 8
#define R_SRC (R_DST + MAXN + 16 + 16)
#define R_KEY (R_SRC + MAXN + 16)
#define R_HDR (R_KEY + 32 + 16)
#ifdef UNWRAP
#define FUNC beltKWPUnwrap
#define FNAME "beltKWPUnwrap"
#define OUTLEN(n) ((n) - 16)
#else
#define FUNC beltKWPWrap
#define FNAME "beltKWPWrap"
#define OUTLEN(n) ((n) + 16)
#endif
static void vp_body(struct vp_in* pin, size_t n, size_t so, size_t dso, size_t ho, size_t ko, size_t key_len)
{
	err_t e1, e2;
	VP_ASSUME(n >= 16 && n <= MAXN && (key_len == 16 || key_len == 24 || key_len == 32));
	C11_IN(so, n); C11_IN(dso, OUTLEN(n)); C11_IN(ko, key_len);
	if (ho != NOHDR) C11_IN(ho, 16);
	VP_ASSUME(R_HDR + 16 <= RSZ);
	C11_LOAD();
#if defined(UNWRAP) && defined(VALIDTOKEN)
	/* src becomes a VALID token: the arena contents at src are read as key material P (count-16 octets), the
	 * contents at header as the header H, and src <- beltKWPWrap(P, H, key) computed by the real function on
	 * private disjoint buffers. (With an arbitrary src a counterexample found under the uninterpreted cipher
	 * needs a forged token to reproduce with the real cipher; with a valid token the replay is faithful.)
	 * If header or key intersect src the token overwrites them and is in general no longer valid. */
	{
		/* one object: beltKWPWrap and memJoin compare their argument pointers */
		static octet W[(MAXN + 32) + (MAXN + 16) + 32 + 48];
		octet *T = W, *P = W + MAXN + 32, *HH = P + MAXN + 16, *KK = HH + 32;
		err_t e0;
		c11_cp(P, A + so, n - 16);
		c11_cp(KK, A + ko, key_len);
		if (ho != NOHDR) c11_cp(HH, A + ho, 16);
		e0 = beltKWPWrap(T, P, n - 16, ho != NOHDR ? (const octet*)HH : (const octet*)0, KK, key_len);
		VP_ASSUME(e0 == ERR_OK);
		c11_cp(A + so, T, n);
	}
#endif
	c11_cp(R + R_SRC, A + so, n);
	c11_cp(R + R_KEY, A + ko, key_len);
	if (ho != NOHDR) c11_cp(R + R_HDR, A + ho, 16);
	e1 = FUNC(A + dso, A + so, n, ho != NOHDR ? A + ho : 0, A + ko, key_len);
	e2 = FUNC(R + R_DST, R + R_SRC, n, ho != NOHDR ? R + R_HDR : 0, R + R_KEY, key_len);
	VP_WITNESS();
	VP_ASSERT(e1 == e2, FNAME ": return code with overlapping buffers == return code with disjoint buffers");
	/* on ERR_BAD_KEYTOKEN beltKWPUnwrap zeroes dest in both runs, so the outputs are compared for every outcome but ERR_BAD_INPUT */
	VP_ASSERT(e1 == ERR_BAD_INPUT || vp_eq(A + dso, R + R_DST, OUTLEN(n)), FNAME ": output with overlapping buffers == output with disjoint buffers");
}
