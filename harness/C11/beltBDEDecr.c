#define FUNC beltBDEDecr
#define FNAME "beltBDEDecr"
#include "cipher6.h"
