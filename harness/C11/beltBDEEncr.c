#define FUNC beltBDEEncr
#define FNAME "beltBDEEncr"
#include "cipher6.h"
