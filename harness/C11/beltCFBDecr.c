/* hdr-rev 8e66856859bc (hash of harness/C11/*.h; keeps the driver's compile cache in step with the headers) */
#define FUNC beltCFBDecr
#define FNAME "beltCFBDecr"
#include "cipher6.h"
