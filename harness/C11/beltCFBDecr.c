#define FUNC beltCFBDecr
#define FNAME "beltCFBDecr"
#include "cipher6.h"
