/* C11: one-shot MAC / hash / key-transformation functions whose header says "Буферы могут пересекаться":
 *   D_MAC   err_t beltMAC(octet mac[8], src, count, key, len)
 *   D_HMAC  err_t beltHMAC(octet mac[32], src, count, key, len)            (any key length)
 *   D_HASH  err_t beltHash(octet hash[32], src, count)
 *   D_BASH  err_t bashHash(octet hash[l/4], l, src, count)
 *   D_KRP   err_t beltKRP(octet dest[m], m, src[n], n, level[12], header[16])
 * The output is small and is placed anywhere relative to the inputs (inside src, inside the key, across
 * their edges, outside). Instance arguments: count (KRP: n), second length (key length / l / m), arena offsets
 * of src, out, key (KRP: level), extra (KRP: header). */
#include "ovl.h"
#include <bee2/crypto/belt.h>
#include <bee2/crypto/bash.h>
#ifndef MAXN
#define MAXN 48
#endif
#define R_OUT 8
#define R_SRC (R_OUT + 64 + 16)
#define R_KEY (R_SRC + MAXN + 16)
#define R_X (R_KEY + 48 + 16)
#if defined(D_MAC)
#define FNAME "beltMAC"
#define OUTLEN(n, k) 8
#define KLEN(n, k) (k)
#define XLEN 0
#define CALL(out, src, n, key, k, x) beltMAC(out, src, n, key, k)
#elif defined(D_HMAC)
#define FNAME "beltHMAC"
#define OUTLEN(n, k) 32
#define KLEN(n, k) (k)
#define XLEN 0
#define CALL(out, src, n, key, k, x) beltHMAC(out, src, n, key, k)
#elif defined(D_HASH)
#define FNAME "beltHash"
#define OUTLEN(n, k) 32
#define KLEN(n, k) 0
#define XLEN 0
#define CALL(out, src, n, key, k, x) beltHash(out, src, n)
#elif defined(D_BASH)
#define FNAME "bashHash"
#define OUTLEN(n, k) ((k) / 4)
#define KLEN(n, k) 0
#define XLEN 0
#define CALL(out, src, n, key, k, x) bashHash(out, k, src, n)
#elif defined(D_KRP)
#define FNAME "beltKRP"
#define OUTLEN(n, k) (k)
#define KLEN(n, k) 12
#define XLEN 16
#define CALL(out, src, n, key, k, x) beltKRP(out, k, src, n, key, x)
#endif
static void vp_body(struct vp_in* pin, size_t n, size_t k, size_t so, size_t oo, size_t ko, size_t xo)
{
	err_t e1, e2;
	VP_ASSUME(n <= MAXN && OUTLEN(n, k) <= 64 && KLEN(n, k) <= 48);
	C11_IN(so, n); C11_IN(oo, OUTLEN(n, k)); C11_IN(ko, KLEN(n, k)); C11_IN(xo, XLEN);
	VP_ASSUME(R_X + 16 <= RSZ);
	C11_LOAD();
	c11_cp(R + R_SRC, A + so, n);
	c11_cp(R + R_KEY, A + ko, KLEN(n, k));
	c11_cp(R + R_X, A + xo, XLEN);
	e1 = CALL(A + oo, A + so, n, A + ko, k, A + xo);
	e2 = CALL(R + R_OUT, R + R_SRC, n, R + R_KEY, k, R + R_X);
	VP_WITNESS();
	VP_ASSERT(e1 == e2, FNAME ": return code with overlapping buffers == return code with disjoint buffers");
	VP_ASSERT(e1 != ERR_OK || vp_eq(A + oo, R + R_OUT, OUTLEN(n, k)), FNAME ": output with overlapping buffers == output with disjoint buffers");
}
