/* C11 stub (CBMC only): beltPolyMul (multiplication in GF(2^128), used by DWP / CHE for the MAC) as an
 * UNINTERPRETED function of its two 128-bit operands, and beltPolyMul_deep as a constant. Nothing is
 * known about the product except that it is a function of (a, b): an equality of two runs proved with
 * this stub holds for the real multiplication. 64-bit words only. Native replay links the real code. */
#include <bee2/defs.h>
typedef unsigned long long U;
typedef unsigned __int128 UU;
UU __CPROVER_uninterpreted_beltPolyMul(U, U, U, U);
void beltPolyMul(word c[], const word a[], const word b[], void* stack)
{
	UU y = __CPROVER_uninterpreted_beltPolyMul(a[0], a[1], b[0], b[1]);
	(void)stack;
	c[0] = (U)y; c[1] = (U)(y >> 64);
}
size_t beltPolyMul_deep(void) { return 64; }
