#define FUNC beltCTR
#define FNAME "beltCTR"
#include "cipher6.h"
