/* C11 stub (CBMC only): memWipe() as a no-op.
 * The high-level functions wipe their private state blob (a whole 1024-octet page, octet by octet
 * through a volatile pointer, then memchr) right before freeing it; the wiped object is a fresh heap
 * object that no argument buffer can alias, and it is never read again, so the wipe cannot influence
 * the outputs compared by C11. Native replay links the real memWipe. */
#include <bee2/core/mem.h>
void memWipe(void* buf, size_t count) { (void)buf; (void)count; }
