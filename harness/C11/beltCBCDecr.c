#define FUNC beltCBCDecr
#define FNAME "beltCBCDecr"
#include "cipher6.h"
