/* C11: beltDWPWrap / beltDWPUnwrap / beltCHEWrap / beltCHEUnwrap.
 * belt.h: Wrap "Буферы могут пересекаться, за исключением пересечения dest и mac"; Unwrap "Буферы могут пересекаться".
 *   Wrap:   [count1]dest, mac[8] <- [count1]src1, [count2]src2, key, iv
 *   Unwrap: [count1]dest <- [count1]src1, [count2]src2, mac[8], key, iv   (ERR_BAD_MAC: dest untouched)
 * Instance arguments: count1, count2, arena offsets of src1, dest, src2, mac, key, iv; key length.
 * Define CHE for the CHE pair, UNWRAP for the Unwrap direction. */
#include "ovl.h"
#include <bee2/crypto/belt.h>
#ifndef MAXN
#define MAXN 33
#endif
#ifndef MAXN2
#define MAXN2 17
#endif
#define R_DST 8
#define R_SRC1 (R_DST + MAXN + 16)
#define R_SRC2 (R_SRC1 + MAXN + 16)
#define R_MAC (R_SRC2 + MAXN2 + 16)
#define R_KEY (R_MAC + 8 + 16)
#define R_IV (R_KEY + 32 + 16)
#ifdef CHE
#define WRAP beltCHEWrap
#define UNWR beltCHEUnwrap
#define PFX "beltCHE"
#else
#define WRAP beltDWPWrap
#define UNWR beltDWPUnwrap
#define PFX "beltDWP"
#endif
static void vp_body(struct vp_in* pin, size_t n1, size_t n2, size_t so, size_t dso, size_t s2o, size_t mo, size_t ko, size_t io, size_t key_len)
{
	err_t e1, e2;
	VP_ASSUME(n1 <= MAXN && n2 <= MAXN2 && (key_len == 16 || key_len == 24 || key_len == 32));
	C11_IN(so, n1); C11_IN(dso, n1); C11_IN(s2o, n2); C11_IN(mo, 8); C11_IN(ko, key_len); C11_IN(io, 16);
	VP_ASSUME(R_IV + 16 <= RSZ);
	C11_LOAD();
	c11_cp(R + R_SRC1, A + so, n1);
	c11_cp(R + R_SRC2, A + s2o, n2);
	c11_cp(R + R_KEY, A + ko, key_len);
	c11_cp(R + R_IV, A + io, 16);
#ifdef UNWRAP
	c11_cp(R + R_MAC, A + mo, 8);
	e1 = UNWR(A + dso, A + so, n1, A + s2o, n2, A + mo, A + ko, key_len, A + io);
	e2 = UNWR(R + R_DST, R + R_SRC1, n1, R + R_SRC2, n2, R + R_MAC, R + R_KEY, key_len, R + R_IV);
	VP_WITNESS();
	VP_ASSERT(e1 == e2, PFX "Unwrap: return code with overlapping buffers == return code with disjoint buffers");
	VP_ASSERT(e1 != ERR_OK || vp_eq(A + dso, R + R_DST, n1), PFX "Unwrap: output with overlapping buffers == output with disjoint buffers");
#else
	/* the one combination excluded by belt.h */
	VP_ASSUME(C11_DISJ(dso, n1, mo, 8));
	e1 = WRAP(A + dso, A + mo, A + so, n1, A + s2o, n2, A + ko, key_len, A + io);
	e2 = WRAP(R + R_DST, R + R_MAC, R + R_SRC1, n1, R + R_SRC2, n2, R + R_KEY, key_len, R + R_IV);
	VP_WITNESS();
	VP_ASSERT(e1 == e2, PFX "Wrap: return code with overlapping buffers == return code with disjoint buffers");
	VP_ASSERT(e1 != ERR_OK || vp_eq(A + mo, R + R_MAC, 8), PFX "Wrap: mac with overlapping buffers == mac with disjoint buffers");
	/* dest compared last: mac may legitimately have been written over src1/src2/key/iv, never over dest */
	VP_ASSERT(e1 != ERR_OK || vp_eq(A + dso, R + R_DST, n1), PFX "Wrap: output with overlapping buffers == output with disjoint buffers");
#endif
}
