#define FUNC beltSDEDecr
#define FNAME "beltSDEDecr"
#include "cipher6.h"
