#define FUNC beltCFBEncr
#define FNAME "beltCFBEncr"
#include "cipher6.h"
