/* C11 common part: "functions documented as overlap-tolerant give the disjoint-buffer result".
 *
 * One arena A (a static octet array, completely symbolic at the start). Every buffer handed to the
 * function under test is a window of A at a CONCRETE offset (instance argument): src at a fixed
 * offset, dest at src + delta, auxiliary inputs (key, iv, header, mac, src2) either inside the
 * output region / inside other inputs, or in a "private" part of A that nothing else touches.
 * (The private places are part of the same C object on purpose: several functions compare their
 * argument pointers with <, >= - memIsDisjoint2 in beltKWPWrap and memJoin - which is only defined,
 * and only accepted by the pointer checks, for pointers into one object.)
 * Before the call the inputs are copied aside into the reference arena R where all buffers are
 * pairwise disjoint; the same real function runs on R; return codes and outputs must be equal.
 * Lengths and offsets are concrete per instance, all data (the whole arena) symbolic. */
#ifndef C11_OVL_H
#define C11_OVL_H
#include "vp.h"
#include <bee2/core/mem.h>
#include <bee2/core/err.h>
#ifndef ASZ
#define ASZ 320
#endif
#ifndef RSZ
#define RSZ 320
#endif
struct vp_in {
	octet arena[ASZ];
};
static octet A[ASZ] __attribute__((aligned(16)));
static octet R[RSZ] __attribute__((aligned(16)));
/* concrete-length copies; byte loops with constant bounds constant-propagate in symex */
static void c11_cp(octet* d, const octet* s, size_t n) { size_t i; for (i = 0; i < n; ++i) d[i] = s[i]; }
#define C11_LOAD() c11_cp(A, pin->arena, ASZ)
#define C11_IN(off, n) VP_ASSUME((size_t)(off) <= ASZ && (size_t)(n) <= ASZ - (size_t)(off))
#define C11_DISJ(o1, n1, o2, n2) ((n1) == 0 || (n2) == 0 || (o1) + (n1) <= (o2) || (o2) + (n2) <= (o1))
#endif
