#define FUNC beltCBCEncr
#define FNAME "beltCBCEncr"
#include "cipher6.h"
