/* hdr-rev 8e66856859bc (hash of harness/C11/*.h; keeps the driver's compile cache in step with the headers) */
/* C11: low-level helpers documented as overlap-tolerant.
 *   T_MOVE  memMove         mem.h  "Буферы src и dest могут пересекаться"
 *   T_JOIN  memJoin         mem.h  "Буферы src1, src2 и dest могут пересекаться"  (all placement branches incl. goto repeat)
 *   T_DER   derEnc          der.h  "Буферы der и val могут пересекаться"
 *   T_KEYX  beltKeyExpand   belt.h "Буферы key и key_ могут пересекаться"   (+ KEYX2: beltKeyExpand2)
 * These calls are cheap (no cipher), so one generated entry point has CONCRETE lengths and walks through ALL
 * relative placements inside its window with concrete loops (symbolic execution unrolls them; every call still
 * sees concrete lengths and offsets); the arena contents are symbolic and reloaded for every placement.
 * Expected values come from copies of the inputs taken before the call (memMove, memJoin, the V part of derEnc:
 * by definition of the result; derEnc TL part and key expansion: the same function on disjoint buffers). */
#include "ovl.h"
#include <bee2/core/der.h>
#include <bee2/crypto/belt.h>
#ifndef MAXN
#define MAXN 24
#endif
#define BASE (MAXN + 24)     /* fixed offset of the first input; everything else is BASE + delta */

#if defined(T_MOVE)
static void vp_body(struct vp_in* pin, size_t n, long dmin, long dmax)
{
	octet exp[MAXN + 1];
	long d;
	VP_ASSUME(n <= MAXN && dmin <= dmax && BASE + dmin >= 0);
	C11_IN(BASE, n); C11_IN(BASE + dmax, n);
	for (d = dmin; d <= dmax; ++d)
	{
		C11_LOAD();
		c11_cp(exp, A + BASE, n);
		memMove(A + BASE + d, A + BASE, n);
		VP_ASSERT(vp_eq(A + BASE + d, exp, n), "memMove: dest == former contents of src for overlapping buffers");
	}
	VP_WITNESS();
}
#elif defined(T_JOIN)
/* dest fixed at BASE; src1 = dest + d1, src2 = dest + d2 for every d1 in [-(n1+1), n1+n2+1], d2 in [-(n2+1), n1+n2+1] */
static void vp_body(struct vp_in* pin, size_t n1, size_t n2)
{
	octet exp[2 * MAXN + 1];
	long d1, d2;
	VP_ASSUME(n1 <= MAXN && n2 <= MAXN);
	C11_IN(BASE, 2 * (n1 + n2) + 2);
	for (d1 = -(long)(n1 + 1); d1 <= (long)(n1 + n2 + 1); ++d1)
		for (d2 = -(long)(n2 + 1); d2 <= (long)(n1 + n2 + 1); ++d2)
		{
			C11_LOAD();
			c11_cp(exp, A + BASE + d1, n1);
			c11_cp(exp + n1, A + BASE + d2, n2);
			memJoin(A + BASE, A + BASE + d1, n1, A + BASE + d2, n2);
			VP_ASSERT(vp_eq(A + BASE, exp, n1 + n2), "memJoin: dest == former src1 || former src2 for overlapping buffers");
		}
	VP_WITNESS();
}
#elif defined(T_DER)
/* val fixed at BASE, der = val + d for d in [dmin, dmax] */
static void vp_body(struct vp_in* pin, u32 tag, size_t len, long dmin, long dmax)
{
	octet val[MAXN + 1];
	size_t c1, c2; long d;
	VP_ASSUME(len <= MAXN && dmin <= dmax && BASE + dmin >= 0);
	C11_IN(BASE, len); C11_IN(BASE + dmax, len + 8);
	VP_ASSUME(8 + 2 * MAXN + 24 <= RSZ);
	for (d = dmin; d <= dmax; ++d)
	{
		C11_LOAD();
		c11_cp(val, A + BASE, len);
		c11_cp(R + 8 + MAXN + 16, A + BASE, len);
		c1 = derEnc(A + BASE + d, tag, A + BASE, len);
		c2 = derEnc(R + 8, tag, R + 8 + MAXN + 16, len);
		VP_ASSERT(c1 == c2, "derEnc: length with overlapping der/val == length with disjoint buffers");
		VP_ASSERT(c1 == SIZE_MAX || (c1 <= len + 8 && vp_eq(A + BASE + d, R + 8, c1)), "derEnc: code with overlapping der/val == code with disjoint buffers");
		VP_ASSERT(c1 == SIZE_MAX || (c1 >= len && vp_eq(A + BASE + d + (c1 - len), val, len)), "derEnc: V == former contents of val");
	}
	VP_WITNESS();
}
#elif defined(T_DERT)
/* typed encoders "Поддерживается логика derEnc(), в частности, буферы der и val могут пересекаться":
 * ENC_UINT derTUINTEnc(der, tag, val, len) (len > 0 octets), ENC_BIT derTBITEnc(der, tag, val, bits).
 * val fixed at BASE, der = val + d for d in [dmin, dmax]; reference: the same function on disjoint buffers */
#ifdef ENC_BIT
#define ENC(der, tag, val, len) derTBITEnc(der, tag, val, bits)
#define ENAME "derTBITEnc"
#else
#define ENC(der, tag, val, len) derTUINTEnc(der, tag, val, len)
#define ENAME "derTUINTEnc"
#endif
static void vp_body(struct vp_in* pin, u32 tag, size_t len, size_t bits, long dmin, long dmax)
{
	size_t c1, c2; long d;
	VP_ASSUME(len <= MAXN && dmin <= dmax && BASE + dmin >= 0 && (bits + 7) / 8 == len);
#ifndef ENC_BIT
	VP_ASSUME(len > 0);
#endif
	C11_IN(BASE, len); C11_IN(BASE + dmax, len + 10);
	VP_ASSUME(8 + 2 * MAXN + 32 <= RSZ);
	for (d = dmin; d <= dmax; ++d)
	{
		C11_LOAD();
		c11_cp(R + 8 + MAXN + 24, A + BASE, len);
		c1 = ENC(A + BASE + d, tag, A + BASE, len);
		c2 = ENC(R + 8, tag, R + 8 + MAXN + 24, len);
		VP_ASSERT(c1 == c2, ENAME ": length with overlapping der/val == length with disjoint buffers");
		VP_ASSERT(c1 == SIZE_MAX || (c1 <= len + 10 && vp_eq(A + BASE + d, R + 8, c1)), ENAME ": code with overlapping der/val == code with disjoint buffers");
	}
	VP_WITNESS();
}
#elif defined(T_KEYX)
/* key fixed at BASE, key_ = key + d for d in [dmin, dmax] (KEYX2: multiples of 4 only, u32 key_[8]) */
static void vp_body(struct vp_in* pin, size_t len, long dmin, long dmax)
{
	long d;
	VP_ASSUME((len == 16 || len == 24 || len == 32) && dmin <= dmax && BASE + dmin >= 0 && BASE % 4 == 0);
	C11_IN(BASE, len); C11_IN(BASE + dmax, 32);
	VP_ASSUME(128 <= RSZ);
	for (d = dmin; d <= dmax; ++d)
	{
#ifdef KEYX2
		if (d % 4) continue;
#endif
		C11_LOAD();
		c11_cp(R + 64, A + BASE, len);
#ifdef KEYX2
		beltKeyExpand2((u32*)(A + BASE + d), A + BASE, len);
		beltKeyExpand2((u32*)(R + 16), R + 64, len);
		VP_ASSERT(vp_eq(A + BASE + d, R + 16, 32), "beltKeyExpand2: overlapping key/key_ == disjoint buffers");
#else
		beltKeyExpand(A + BASE + d, A + BASE, len);
		beltKeyExpand(R + 16, R + 64, len);
		VP_ASSERT(vp_eq(A + BASE + d, R + 16, 32), "beltKeyExpand: overlapping key/key_ == disjoint buffers");
#endif
	}
	VP_WITNESS();
}
#endif
