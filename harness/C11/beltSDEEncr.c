#define FUNC beltSDEEncr
#define FNAME "beltSDEEncr"
#include "cipher6.h"
