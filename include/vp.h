/* vp.h - dual-mode harness header.
 *  CBMC mode  (__CPROVER__ defined by goto-cc/cbmc): inputs are nondeterministic,
 *             VP_ASSERT is a proof obligation, VP_ASSUME a constraint.
 *  native mode (replay): inputs come from the counterexample the solver returned
 *             (VP_IN_INIT, written by vp_check.py into a header that is -include'd),
 *             VP_ASSUME failing -> exit 77 (input outside the harness domain),
 *             VP_ASSERT failing -> message + exit 1 (violation reproduced).
 */
#ifndef VP_H
#define VP_H
#include <stddef.h>
#include <stdlib.h>
#include <string.h>

#ifdef VP_CBMC
  #define VP_ASSERT(c, msg) __CPROVER_assert((c), "VP_PROP " msg)
  #define VP_ASSUME(c) __CPROVER_assume(c)
  #define VP_WITNESS() __CPROVER_assert(0, "VP_WITNESS")
  /* declares `struct vp_in in` with an arbitrary value */
  #define VP_INPUT() struct vp_in in
  #define VP_MALLOC_OK(p) __CPROVER_assume((p) != 0)
  #define VP_NATIVE 0
#else
  #include <stdio.h>
  #define VP_ASSERT(c, msg) do { if (!(c)) { printf("VP_REPRODUCED %s\n", msg); fflush(stdout); exit(1); } } while (0)
  #define VP_ASSUME(c) do { if (!(c)) { printf("VP_ASSUME_FAILED %s\n", #c); exit(77); } } while (0)
  #define VP_WITNESS() do { } while (0)
  #ifndef VP_IN_INIT
    #error "native replay needs VP_IN_INIT"
  #endif
  #define VP_INPUT() struct vp_in in = VP_IN_INIT
  #define VP_MALLOC_OK(p) do { if (!(p)) exit(78); } while (0)
  #define VP_NATIVE 1
  #define __CPROVER_assume(c) VP_ASSUME(c)
  #define __CPROVER_assert(c, m) VP_ASSERT(c, m)
#endif

/* exact-size heap copy of n octets (so that any overrun is an out-of-object access) */
static inline void* vp_dup(const void* src, size_t n)
{
	void* p = malloc(n);
	VP_MALLOC_OK(p);
	if (n) memcpy(p, src, n);
	return p;
}
static inline void* vp_alloc(size_t n)
{
	void* p = malloc(n);
	VP_MALLOC_OK(p);
	return p;
}
/* buffer of n <= cap octets whose END coincides with the end of a heap object.
 * CBMC: the object has the constant size cap and the buffer starts at offset cap-n
 * (a symbolic-size malloc costs 20x more in the solver); every access at or past
 * buffer+n is out of the object. Native replay: exact malloc(n) (ASan sees both ends). */
static inline void* vp_alloc_end(size_t n, size_t cap)
{
#ifdef VP_CBMC
	unsigned char* p = (unsigned char*)malloc(cap);
	VP_MALLOC_OK(p);
	VP_ASSUME(n <= cap);
	return p + (cap - n);
#else
	void* p = malloc(n);
	VP_MALLOC_OK(p);
	return p;
#endif
}
static inline void* vp_dup_end(const void* src, size_t n, size_t cap)
{
	unsigned char* p = (unsigned char*)vp_alloc_end(n, cap);
	size_t i;
	for (i = 0; i < n; ++i) p[i] = ((const unsigned char*)src)[i];
	return p;
}
static inline int vp_eq(const void* a, const void* b, size_t n)
{
	const unsigned char* x = (const unsigned char*)a;
	const unsigned char* y = (const unsigned char*)b;
	size_t i; unsigned char d = 0;
	for (i = 0; i < n; ++i) d |= x[i] ^ y[i];
	return d == 0;
}
#endif
