#!/usr/bin/env python3
"""apply a seeded change to a scratch worktree of /repo and run a property's check against it.
usage: seedtest.py <PID> <patch.diff> [--only REGEX] [--tier quick]
The check itself is the registered one (vp_check.py); only the repository root (VP_REPO) and the
build directory (VP_BUILD) are redirected so that concurrent work on /repo is not disturbed."""
import sys, os, subprocess, tempfile, shutil, time
pid, patch = sys.argv[1], os.path.abspath(sys.argv[2])
rest = sys.argv[3:]
wt = tempfile.mkdtemp(prefix='vpseed_', dir='/tmp')
os.rmdir(wt)
subprocess.run(['git', '-C', '/repo', 'worktree', 'add', '-q', '--detach', wt, 'HEAD'], check=True)
try:
    r = subprocess.run(['git', '-C', wt, 'apply', patch])
    if r.returncode != 0:
        print('PATCH DOES NOT APPLY'); sys.exit(3)
    env = dict(os.environ, VP_REPO=wt, VP_BUILD=wt + '_build', VP_JOBS=os.environ.get('VP_JOBS', '6'))
    t = time.time()
    r = subprocess.run(['python3', '/verif/vp_check.py', pid, '--no-evidence'] + rest, env=env, capture_output=True, text=True)
    out = r.stdout
    lines = [l for l in out.splitlines() if 'VIOLATION' in l or 'UNCONFIRMED' in l or 'BROKEN' in l or l.startswith('[%s] tier' % pid)]
    print('\n'.join(l[:260] for l in lines[:12]))
    print('EXIT', r.returncode, 'wall %.0fs' % (time.time() - t))
finally:
    subprocess.run(['git', '-C', '/repo', 'worktree', 'remove', '--force', wt])
    shutil.rmtree(wt + '_build', ignore_errors=True)
