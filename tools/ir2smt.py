#!/usr/bin/env python3
"""ir2smt.py - encoder for loop-free LLVM-IR functions over integers and one small
memory object, producing SMT-LIB2 (QF_BV) define-funs.

Supported: switch, br, icmp, and/or/xor/add/sub/mul/shl/lshr/ashr/udiv/urem, select, phi,
zext/sext/trunc, getelementptr with constant indices into the first pointer argument
(byte offsets computed for i8 arrays and structs of i8/[N x i8] only), bitcast of
pointers, load/store of i8/i16/i32 at constant offsets, ret, freeze.
Anything else raises Unsupported (the caller reports the obligation as not encodable).

The function  f(ptr %0, iK %1, ...)  becomes
    (define-fun F_ret ((m0 (_ BitVec 8)) ... (a1 (_ BitVec K)) ...) (_ BitVec R) ...)
    (define-fun F_m<j> (...) (_ BitVec 8) ...)     ; memory octet j after the call
with MEMBYTES octets of memory behind the pointer argument.
"""
import re, sys

class Unsupported(Exception): pass

def bv(n, w): return '(_ bv%d %d)' % (n % (1 << w), w)

class Enc:
    def __init__(self, ll_text, fname, membytes=4):
        self.membytes = membytes
        self.fname = fname
        self.parse(ll_text, fname)

    def parse(self, txt, fname):
        m = re.search(r'^define [^@]*@%s\((.*?)\)[^{]*\{\n(.*?)^\}' % re.escape(fname), txt, re.S | re.M)
        if not m: raise Unsupported('function %s not found in IR' % fname)
        self.ret_w = int(re.search(r'^define (?:dso_local )?(?:noundef )?(?:zeroext |signext )?i(\d+) ', m.group(0)).group(1))
        args = []
        for a in self.split_args(m.group(1)):
            a = a.strip()
            name = a.split()[-1]
            ty = a.split()[0]
            args.append((name, ty))
        self.args = args
        body = m.group(2)
        # join multi-line switch
        body = re.sub(r'\[\s*\n(.*?)\n\s*\]', lambda mm: '[ ' + ' '.join(x.strip() for x in mm.group(1).splitlines()) + ' ]', body, flags=re.S)
        blocks = {}; order = []
        cur = '%' + str(len(args))  # entry block label is the next unnamed value
        # clang numbers the entry block implicitly
        blocks[cur] = []; order.append(cur)
        for line in body.splitlines():
            line = line.split(';')[0].rstrip() if not line.strip().startswith(';') else ''
            if not line.strip(): continue
            lm = re.match(r'^([\w.\-]+):', line)
            if lm:
                cur = '%' + lm.group(1); blocks[cur] = []; order.append(cur); continue
            blocks[cur].append(line.strip())
        self.blocks = blocks; self.order = order

    @staticmethod
    def split_args(s):
        out = []; depth = 0; cur = ''
        for ch in s:
            if ch in '([{': depth += 1
            if ch in ')]}': depth -= 1
            if ch == ',' and depth == 0: out.append(cur); cur = ''
            else: cur += ch
        if cur.strip(): out.append(cur)
        return out

    # ---- encoding
    def encode(self):
        A = self.args
        ptr = [n for n, t in A if t.endswith('*') or t == 'ptr']
        if len(ptr) != 1: raise Unsupported('need exactly one pointer argument')
        self.ptr0 = ptr[0]
        val = {}      # ssa name -> (smt expr, width) ; pointers -> ('ptr', offset)
        val[self.ptr0] = ('ptr', 0)
        params = ['(m%d (_ BitVec 8))' % j for j in range(self.membytes)]
        for n, t in A:
            if n == self.ptr0: continue
            w = int(t[1:]); pn = 'a' + n[1:]
            params.append('(%s (_ BitVec %d))' % (pn, w)); val[n] = (pn, w)
        self.params = params
        lets = []     # (name, expr)
        cnt = [0]
        def fresh(e, w):
            cnt[0] += 1; nm = 't%d' % cnt[0]; lets.append((nm, e)); return (nm, w)
        def opnd(tok, w=None):
            tok = tok.strip()
            if tok.startswith('%'):
                if tok not in val: raise Unsupported('use before def ' + tok)
                return val[tok]
            if tok in ('true', 'false'): return (bv(1 if tok == 'true' else 0, 1), 1)
            if tok in ('undef', 'poison'): return (bv(0, w), w)
            return (bv(int(tok), w), w)
        # topological order of the CFG (blocks as listed by clang are in RPO for loop-free code;
        # we verify that every predecessor was processed first)
        bcond = {self.order[0]: 'true'}
        bmem = {self.order[0]: ['m%d' % j for j in range(self.membytes)]}
        incoming = {}     # block -> list of (pred, edgecond, mem)
        rets = []
        def add_edge(src, dst, cond, mem):
            incoming.setdefault(dst, []).append((src, cond, list(mem)))
        done = set()
        # topological sort of the CFG (Kahn); a cycle means the function has a loop
        succ = {b: [] for b in self.order}
        for b in self.order:
            for ins in self.blocks[b]:
                if ins.split()[0] in ('br', 'switch'):
                    for lab in re.findall(r'label (%[\w.]+)', ins):
                        if lab not in succ: raise Unsupported('unknown label ' + lab)
                        succ[b].append(lab)
        indeg = {b: 0 for b in self.order}
        for b in self.order:
            for t in set(succ[b]): indeg[t] += 1
        topo = []; ready = [b for b in self.order if indeg[b] == 0 and b == self.order[0]]
        dead = [b for b in self.order if indeg[b] == 0 and b != self.order[0]]
        ready += dead
        while ready:
            b = ready.pop(0); topo.append(b)
            for t in set(succ[b]):
                indeg[t] -= 1
                if indeg[t] == 0: ready.append(t)
        if len(topo) != len(self.order): raise Unsupported('CFG has a cycle (loop): not encodable by the loop-free encoder')
        for b in topo:
            if b != self.order[0]:
                inc = incoming.get(b, [])
                if not inc:
                    done.add(b); bcond[b] = 'false'; bmem[b] = [bv(0, 8)] * self.membytes
                    continue
                for p, _, _ in inc:
                    if p not in done: raise Unsupported('CFG is not loop-free / not in RPO at ' + b)
                bc = fresh('(or false %s)' % ' '.join(c for _, c, _ in inc), 0)[0]
                bcond[b] = bc
                mem = []
                for j in range(self.membytes):
                    e = inc[-1][2][j]
                    for p, c, mm in reversed(inc[:-1]):
                        e = '(ite %s %s %s)' % (c, mm[j], e)
                    mem.append(fresh(e, 8)[0])
                bmem[b] = mem
            mem = list(bmem[b])
            bc = bcond[b]
            for ins in self.blocks[b]:
                m = re.match(r'^(%[\w.]+) = (.*)$', ins)
                if m:
                    dst, rhs = m.group(1), m.group(2)
                    op = rhs.split()[0]
                    if op == 'getelementptr':
                        parts = self.split_args(rhs)
                        base = None; idx = []
                        for p in parts[1:]:
                            t = p.strip().split()
                            if t[-1].startswith('%') and (t[0].endswith('*') or t[0] == 'ptr'): base = t[-1]
                            else: idx.append(t[-1])
                        if base is None or val.get(base, (None,))[0] != 'ptr': raise Unsupported('gep base ' + ins)
                        try: ii = [int(x) for x in idx]
                        except ValueError: raise Unsupported('gep with symbolic index ' + ins)
                        off = val[base][1]
                        if 'struct' in rhs:
                            # { i8, [3 x i8] }-style structs of octets: field k at offset of octet fields
                            if len(ii) >= 1 and ii[0] != 0: raise Unsupported('gep struct index0 != 0')
                            if len(ii) >= 2:
                                if ii[1] == 0: pass
                                elif ii[1] == 1: off += 1
                                else: raise Unsupported('gep struct field ' + ins)
                            if len(ii) >= 3: off += ii[2]
                        else:
                            if not re.search(r'getelementptr (inbounds )?i8,', rhs): raise Unsupported('gep element type ' + ins)
                            off += ii[0]
                        val[dst] = ('ptr', off)
                    elif op == 'bitcast':
                        src = rhs.split()[2]
                        if val.get(src, (None,))[0] != 'ptr': raise Unsupported('bitcast of non-pointer ' + ins)
                        val[dst] = val[src]
                    elif op == 'load':
                        mm = re.match(r'load i(\d+), (?:i\d+\*|ptr|%[\w.]+\*) (%[\w.]+)', rhs)
                        if not mm: raise Unsupported(ins)
                        w = int(mm.group(1)); p = val.get(mm.group(2))
                        if not p or p[0] != 'ptr' or w % 8: raise Unsupported('load ' + ins)
                        n = w // 8
                        if p[1] + n > self.membytes: raise Unsupported('load beyond modelled memory')
                        bs = [mem[p[1] + k] for k in range(n)]
                        e = bs[0] if n == 1 else '(concat %s)' % ' '.join(reversed(bs))
                        val[dst] = fresh(e, w)
                    elif op == 'icmp':
                        mm = re.match(r'icmp (\w+) i(\d+) ([^,]+), (.+)$', rhs)
                        pred, w = mm.group(1), int(mm.group(2))
                        a = opnd(mm.group(3), w)[0]; c = opnd(mm.group(4), w)[0]
                        tbl = dict(eq='(= %s %s)', ne='(not (= %s %s))', ult='(bvult %s %s)', ule='(bvule %s %s)',
                                   ugt='(bvugt %s %s)', uge='(bvuge %s %s)', slt='(bvslt %s %s)', sle='(bvsle %s %s)',
                                   sgt='(bvsgt %s %s)', sge='(bvsge %s %s)')
                        val[dst] = fresh('(ite %s #b1 #b0)' % (tbl[pred] % (a, c)), 1)
                    elif op in ('and', 'or', 'xor', 'add', 'sub', 'mul', 'shl', 'lshr', 'ashr', 'udiv', 'urem'):
                        mm = re.match(r'\w+ (?:(?:nsw|nuw|exact) )*i(\d+) ([^,]+), (.+)$', rhs)
                        w = int(mm.group(1)); a = opnd(mm.group(2), w)[0]; c = opnd(mm.group(3), w)[0]
                        f = dict(**{'and': 'bvand', 'or': 'bvor', 'xor': 'bvxor', 'add': 'bvadd', 'sub': 'bvsub', 'mul': 'bvmul',
                                    'shl': 'bvshl', 'lshr': 'bvlshr', 'ashr': 'bvashr', 'udiv': 'bvudiv', 'urem': 'bvurem'})[op]
                        val[dst] = fresh('(%s %s %s)' % (f, a, c), w)
                    elif op == 'select':
                        mm = re.match(r'select i1 ([^,]+), i(\d+) ([^,]+), i\d+ (.+)$', rhs)
                        w = int(mm.group(2)); c = opnd(mm.group(1), 1)[0]
                        val[dst] = fresh('(ite (= %s #b1) %s %s)' % (c, opnd(mm.group(3), w)[0], opnd(mm.group(4), w)[0]), w)
                    elif op in ('zext', 'sext', 'trunc'):
                        mm = re.match(r'\w+ i(\d+) (\S+) to i(\d+)', rhs)
                        w1, w2 = int(mm.group(1)), int(mm.group(3)); a = opnd(mm.group(2), w1)[0]
                        if op == 'zext': e = '((_ zero_extend %d) %s)' % (w2 - w1, a)
                        elif op == 'sext': e = '((_ sign_extend %d) %s)' % (w2 - w1, a)
                        else: e = '((_ extract %d 0) %s)' % (w2 - 1, a)
                        val[dst] = fresh(e, w2)
                    elif op == 'freeze':
                        mm = re.match(r'freeze i(\d+) (\S+)', rhs)
                        val[dst] = opnd(mm.group(2), int(mm.group(1)))
                    elif op == 'phi':
                        mm = re.match(r'phi i(\d+) (.*)$', rhs); w = int(mm.group(1))
                        pairs = re.findall(r'\[ ([^,]+), (%[\w.]+) \]', mm.group(2))
                        inc = incoming.get(b, [])
                        e = None
                        for v, p in pairs:
                            cs = [c for (pp, c, _) in inc if pp == p]
                            if not cs: continue
                            c = '(or false %s)' % ' '.join(cs)
                            x = opnd(v, w)[0]
                            e = x if e is None else '(ite %s %s %s)' % (c, x, e)
                        if e is None: e = bv(0, w)
                        val[dst] = fresh(e, w)
                    else:
                        raise Unsupported('instruction ' + ins)
                    continue
                op = ins.split()[0]
                if op == 'store':
                    mm = re.match(r'store i(\d+) ([^,]+), (?:i\d+\*|ptr|%[\w.]+\*) (%[\w.]+)', ins)
                    if not mm: raise Unsupported(ins)
                    w = int(mm.group(1)); p = val.get(mm.group(3))
                    if not p or p[0] != 'ptr' or w % 8: raise Unsupported('store ' + ins)
                    x = opnd(mm.group(2), w)[0]
                    for k in range(w // 8):
                        if p[1] + k >= self.membytes: raise Unsupported('store beyond modelled memory')
                        mem[p[1] + k] = fresh('((_ extract %d %d) %s)' % (8 * k + 7, 8 * k, x), 8)[0]
                elif op == 'br':
                    mm = re.match(r'br i1 ([^,]+), label (%[\w.]+), label (%[\w.]+)', ins)
                    if mm:
                        c = opnd(mm.group(1), 1)[0]
                        add_edge(b, mm.group(2), '(and %s (= %s #b1))' % (bc, c), mem)
                        add_edge(b, mm.group(3), '(and %s (= %s #b0))' % (bc, c), mem)
                    else:
                        mm = re.match(r'br label (%[\w.]+)', ins)
                        add_edge(b, mm.group(1), bc, mem)
                elif op == 'switch':
                    mm = re.match(r'switch i(\d+) ([^,]+), label (%[\w.]+) \[(.*)\]', ins)
                    w = int(mm.group(1)); x = opnd(mm.group(2), w)[0]; dflt = mm.group(3)
                    cases = re.findall(r'i\d+ (-?\d+), label (%[\w.]+)', mm.group(4))
                    conds = []
                    for cv, lab in cases:
                        c = '(= %s %s)' % (x, bv(int(cv), w)); conds.append(c)
                        add_edge(b, lab, '(and %s %s)' % (bc, c), mem)
                    add_edge(b, dflt, '(and %s (not (or false %s)))' % (bc, ' '.join(conds)), mem)
                elif op == 'ret':
                    mm = re.match(r'ret i(\d+) (.+)$', ins)
                    rets.append((bc, opnd(mm.group(2), int(mm.group(1)))[0], list(mem)))
                elif op == 'unreachable':
                    pass
                else:
                    raise Unsupported('instruction ' + ins)
            done.add(b)
        if not rets: raise Unsupported('no ret')
        def merged(sel):
            e = sel(rets[-1])
            for r in reversed(rets[:-1]): e = '(ite %s %s %s)' % (r[0], sel(r), e)
            return e
        def wrap(e):
            s = e
            for nm, ex in reversed(lets): s = '(let ((%s %s)) %s)' % (nm, ex, s)
            return s
        out = []
        ps = ' '.join(params)
        out.append('(define-fun %s_ret (%s) (_ BitVec %d) %s)' % (self.fname, ps, self.ret_w, wrap(merged(lambda r: r[1]))))
        for j in range(self.membytes):
            out.append('(define-fun %s_m%d (%s) (_ BitVec 8) %s)' % (self.fname, j, ps, wrap(merged(lambda r, j=j: r[2][j]))))
        self.n_instructions = sum(len(v) for v in self.blocks.values())
        return '\n'.join(out)

if __name__ == '__main__':
    e = Enc(open(sys.argv[1]).read(), sys.argv[2], membytes=int(sys.argv[3]) if len(sys.argv) > 3 else 4)
    print(e.encode())
