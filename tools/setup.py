#!/usr/bin/env python3
"""offline setup: nothing to fetch; verifies the tools exist and creates scratch dirs"""
import shutil, sys, os
V = os.path.dirname(os.path.dirname(os.path.abspath(__file__)))
need = ['goto-cc', 'cbmc', 'goto-instrument', 'gcc', 'clang-14', 'z3', 'cvc5', 'kissat']
miss = [t for t in need if not shutil.which(t)]
for d in ('build', 'evidence', 'replay'):
    os.makedirs(os.path.join(V, d), exist_ok=True)
os.chmod(os.path.join(V, 'tools', 'shim', 'cvc5'), 0o755)
if miss:
    print('missing tools:', miss); sys.exit(1)
print('setup ok')
