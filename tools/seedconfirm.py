#!/usr/bin/env python3
"""confirm a seeded change independently: in a scratch worktree of /repo (HEAD) the change applies, the library
builds, the pinned test suite passes, the demonstration fails with the change and passes without it.
usage: seedconfirm.py <outdir> <N>   (expects mN.diff, mN_demo.c in outdir) -> prints a JSON line"""
import sys, os, subprocess, tempfile, json, shutil, glob
out, n = sys.argv[1], sys.argv[2]
patch = os.path.join(out, 'm%s.diff' % n); demo = os.path.join(out, 'm%s_demo.c' % n)
wt = tempfile.mkdtemp(prefix='vpconf_', dir='/tmp'); os.rmdir(wt)
def sh(cmd, **kw): return subprocess.run(cmd, shell=True, capture_output=True, text=True, **kw)
res = dict(patch=patch)
sh('git -C /repo worktree add -q --detach %s HEAD' % wt)
try:
    def build():
        r = sh('cmake -G Ninja -B _b -S . -DCMAKE_BUILD_TYPE=RelWithDebInfo >/dev/null && cmake --build _b -j8 2>&1 | tail -2', cwd=wt); return r.returncode == 0 and 'error' not in r.stdout.lower()
    def demo_run():
        lib = glob.glob(wt + '/_b/src/libbee2_static.a')[0]
        r = sh('gcc -O1 -w -I%s/include -I%s/src %s %s -lpthread -ldl -o %s/demo.exe' % (wt, wt, demo, lib, wt))
        if r.returncode != 0: return 'compile-error: ' + r.stderr[-300:]
        r = sh('%s/demo.exe' % wt, timeout=600)
        return r.returncode
    res['applies'] = sh('git -C %s apply %s' % (wt, patch)).returncode == 0
    res['builds'] = build()
    r = sh('ctest --test-dir _b -j8 --timeout 900 2>&1 | tail -4', cwd=wt); res['tests_pass'] = '100% tests passed' in r.stdout
    res['demo_with_change'] = demo_run()
    sh('git -C %s checkout -- .' % wt); build()
    res['demo_clean'] = demo_run()
    res['confirmed'] = bool(res['applies'] and res['builds'] and res['tests_pass'] and res['demo_with_change'] not in (0,) and not str(res['demo_with_change']).startswith('compile') and res['demo_clean'] == 0)
finally:
    sh('git -C /repo worktree remove --force %s' % wt); shutil.rmtree(wt, ignore_errors=True)
print(json.dumps(res))
