# executed by gen_manifest.py
PENDING = 'check not built yet in this session (design exists in DESIGN.md); will be claimed once its harnesses pass on the unchanged tree'
for i in range(1, 21):
    NA['C%02d' % i] = PENDING
NA['C13'] = 'bels share/recover correctness needs GF(2)[x] CRT at >=128 bits on symbolic data; symbolic execution of the most restricted instance exceeded 420 s / 9.5 GB without producing a formula (DESIGN.md C13)'

def claim(pid, text, note, ref, tech=None):
    CLAIMED[pid] = (text, note, ref, tech)
    NA.pop(pid, None)

claim('C12',
  'bounded model checking: tmDateIsValid/tmDateIsValid2 decided against a calendar model for ALL inputs at full width; other validators: see evidence not_decided',
  'trusted: CBMC C semantics, the Gregorian calendar model in harness/C12/tm_date.c', 'DESIGN.md 3/C12')
