# executed by gen_manifest.py
PENDING = 'check not built yet in this session (design exists in DESIGN.md); will be claimed once its harnesses pass on the unchanged tree'
for i in range(1, 21):
    NA['C%02d' % i] = PENDING
NA['C13'] = 'bels share/recover correctness needs GF(2)[x] CRT at >=128 bits on symbolic data; symbolic execution of the most restricted instance exceeded 420 s / 9.5 GB without producing a formula (DESIGN.md C13)'

def claim(pid, text, note, ref, tech=None):
    CLAIMED[pid] = (text, note, ref, tech)
    NA.pop(pid, None)

claim('C12',
  'bounded model checking: tmDateIsValid/tmDateIsValid2 decided against a calendar model for ALL inputs at full width; other validators: see evidence not_decided',
  'trusted: CBMC C semantics, the Gregorian calendar model in harness/C12/tm_date.c', 'DESIGN.md 3/C12')

claim('C20',
  'bounded/inductive model checking of the real transition function: LLVM IR of the unmodified btok_pwd.c encoded to SMT-LIB (own loop-free encoder), one-step rules proved from every state of an inductive invariant (histories of any length) plus k-step monitors; z3 decides, cvc5 must agree; encoder validated against the gcc-built function by a solver query on every run',
  'trusted: clang-14 -O1 lowering + tools/ir2smt.py (validated per run against gcc build on all 256x16 inputs), z3/cvc5, the rule formalisation in props/C20.py (lenient reading: PUK-authenticated sessions may deactivate/activate)', 'DESIGN.md 3/C20',
  'LLVM-IR to SMT-LIB encoding of btokPwdTransition; inductive one-step + bounded k-step queries decided by z3 and cvc5')

claim('C08',
  'bounded model checking of the real decoders: every input of length 0..N (N=12 quick, 16 thorough) with symbolic content in an end-aligned heap object; assertions: consumed <= input, value window inside input, acceptance == reference DER grammar, accept => re-encode equals accepted octets, encode => decode inverts; CBMC pointer/bounds checks are the memory oracle',
  'trusted: CBMC memory model, the DER grammar model in harness/C08/der.c (written from der.h), REL (NDEBUG) profile; reads BEFORE the start of the input are only visible when n == N', 'DESIGN.md 3/C08')

claim('C03',
  'bounded model checking: bash-f (64- and 32-bit units) == loop-form model of STB 34.101.77 for ALL 2^1536 states; brng 256-bit counter increment for all counters (both word sizes); botp dynamic truncation / counter for all MACs and counters. Sponge/brng/OTP glue over uninterpreted primitives: see evidence not_decided',
  'trusted: CBMC, the bash-f model in harness/C03/bashf.c (written from the standard), RFC 4226 truncation model', 'DESIGN.md 3/C03')
claim('C10',
  'bounded model checking of the real Start/Step/Get code with the block cipher as an uninterpreted function: for every length tuple inside the bound (complete enumeration by the driver) the chunked / get-then-continue / relocated run equals the one-shot run for ALL data, keys and IVs',
  'trusted: CBMC, stubs/belt_block_uf*.c (uninterpreted cipher: weaker than the real one, so proved equalities transfer); key length fixed to 32 in chunking instances', 'DESIGN.md 3/C10')

claim('C05',
  'bounded model checking of the real zz units against exact integer values (unsigned __int128 / division-free relations): add/sub/compare family at 16/32/64-bit words, modular add/sub/neg/double/half in both editions for every modulus > 1, word division, Montgomery/Crandall reductions SAFE == FAST and fully reduced at 16-bit words; multiplication/division/Barrett lemmas in the thorough tier (reported UNDECIDED when the solver does not finish)',
  'trusted: CBMC, reference arithmetic of the harness; the 16-bit word configuration is reached through the BEE2_VERIF_WORD hook and run without signed-overflow checks', 'DESIGN.md 3/C05')

claim('C14',
  'bounded model checking: (a) SAFE edition == FAST edition == documented value for mem/ww/CLZ/CTZ and (shared with C05) the modular and reduction routines; (b) data-independent control flow by self-composition: the program is instrumented with goto-instrument --branch, the routine runs twice with equal lengths and independent arbitrary secrets, and the solver must show the two branch traces identical - for the SAFE mem/ww/zz routines, the belt block cipher, bash-f, and the MAC/HMAC/hash/DWP/CHE/bash verification paths',
  'C-source (goto program) level only: branches introduced or removed by the optimising compiler are not visible; libc compare functions modelled as early-exit loops; modes run over an uninterpreted cipher (the cipher is traced separately)', 'DESIGN.md 3/C14',
  'self-composition over goto-instrument --branch traces + SAFE/FAST equivalence, decided by CBMC')

claim('C18',
  'bounded model checking of thread interleavings (CBMC partial-order encoding; SC, TSO, PSO) of the real mt.c once/atomic primitives with 2-3 threads; for rng.c, whose shared pointer CBMC cannot encode concurrently, lock discipline (every kernel/allocator/source call under the mutex, mutex released on every path) and reference counting for every sequential API program of bounded length',
  'trusted: CBMC concurrency encoding and memory models, __sync builtins atomic, pthread mutex correct; spin loops bounded by the unwinding limit without unwinding assertion', 'DESIGN.md 3/C18',
  'CBMC partial-order concurrency encoding (SC/TSO/PSO) + sequential lock-discipline monitor')

claim('C19',
  'bounded model checking of configuration pairs of the SAME source file linked into one program (second configuration compiled with other macros and all externals renamed): 64- vs 32-bit word builds of the belt length-block/GF helpers and of zz/ww add/sub/compare on octet strings, and the 64-bit vs 32-bit bash-f units for all states; regular vs fast edition is decided under C14',
  'trusted: CBMC; little-endian host; optimisation levels, vector bash-f units and NDEBUG on/off are not covered (see evidence not_decided)', 'DESIGN.md 3/C19')

claim('C06',
  'bounded model checking of the real point formulas of ecp.c (Jacobian, mixed, affine; negation, addition, subtraction, doubling, tripling, conversions, on-curve test) over an exact small prime field supplied by the harness: for EVERY non-singular curve over GF(7) (thorough: GF(5..13)) and every point pair satisfying the curve equation - O, P=Q, P=-Q, order-2 points included - the result equals the textbook group law; scalar multiplication and the standard curves are not decided',
  'trusted: CBMC, the reference group law and the exact field in harness/C06/ecp.c; the library field layer is replaced (its arithmetic is C05)', 'DESIGN.md 3/C06')

claim('C09',
  'bounded model checking of the real high-level functions: (1) every documented argument condition negated with the scalar arguments symbolic at full width: the named error class is returned, outputs untouched, no low-level function entered; (2) verify-before-release for DWP/CHE/KWP unwrap over an uninterpreted cipher: a failing call leaves dest unchanged or zero; (3) allocation failure: every malloc may fail symbolically, the call returns ERR_OUTOFMEMORY exactly then, no NULL dereference, no leak',
  'trusted: CBMC malloc-may-fail model and leak check; table of documented conditions transcribed from the headers (harness/C09/args.c); EC-based functions not covered', 'DESIGN.md 3/C09')
claim('C15',
  'bounded model checking with a ghost monitor: memWipe is modelled as "fill with 0xA5 and record the range", memFree asserts that the WHOLE block was wiped and that no octet was written afterwards; real blob.c (exact-size hook) and real high-level functions of belt/brng/botp/bash over uninterpreted kernels with symbolic secrets, success and error paths in one query; plus a lemma on the real memWipe',
  'trusted: CBMC; the monitor in harness/C15/wipe_model.c; compiler honouring the volatile stores of memWipe is not checked; EC-based functions not covered', 'DESIGN.md 3/C15')

claim('C01',
  'bounded model checking in two layers: kernel lemmas on the real belt_block.c (H table, G boxes for all 2^32 words, one tact of R against the standard, wiring of the E/D macros and D(E(x)) == x over uninterpreted G boxes, exported functions == macro expansion), key expansion, length-block/GF helpers at 64- and 32-bit words, beltFMTCalcB against exact integer thresholds; glue obligations: ECB/CBC/CFB/CTR/MAC == models of the standard and Decr(Encr(x)) == x, DWP/CHE/KWP unwrap accepts exactly the wrap outputs, over an uninterpreted cipher with concrete lengths and symbolic data',
  'trusted: CBMC, the models of STB 34.101.31 in harness/C01, the H table as appendix data of the standard; hash/HMAC/WBL/BDE/SDE/KRP/PBKDF2 against the standard and beltPolyMul are not decided', 'DESIGN.md 3/C01')
claim('C07',
  'bounded model checking with CBMC pointer/bounds checks as the oracle: every Start/Step/Get bundle of belt, bash, brng, botp on a state object of EXACTLY X_keep() octets with exact-size caller buffers (64- and 32-bit words), the same with the library ASSERTs live (NDEBUG off, object-aware disjointness model), real kernels on exact buffers, high-level functions on exact-size blobs (hook), and zz/pp routines on stacks of exactly f_deep() octets; gcd/division/sqrt/irreducibility depths are in the thorough tier and mostly undecided',
  'trusted: CBMC memory model; cipher/bash-f replaced by arbitrary in-place functions in the layout obligations (their own memory safety is a separate obligation); uninitialised reads are not detected', 'DESIGN.md 3/C07')

claim('C11',
  'bounded model checking of the real overlap-tolerant functions (belt CBC/CFB/CTR/BDE/SDE/DWP/CHE/KWP/MAC/hash/HMAC/KRP, bashHash, memMove, memJoin, derEnc family, key expansion): all buffers are windows of one symbolic arena, dest at src + delta for a complete set of concrete deltas and lengths, auxiliary inputs inside or across dest/src where the header allows; outputs and return codes must equal those of the same function on pairwise disjoint copies, for ALL data; cipher/bash-f/GF product uninterpreted',
  'trusted: CBMC; the table of "buffers may overlap" remarks transcribed from the headers in props/C11.py; quick tier uses edge deltas plus the full delta range for one length per function', 'DESIGN.md 3/C11')

claim('C17',
  'bounded model checking of the real secure-messaging code (btok_sm.c with apdu.c, der.c, belt CFB/MAC) over an uninterpreted cipher: for the listed data lengths and every Lc/Le form, with header octets, data, keys and the 128-bit counter symbolic, a peer whose counter is in step recovers a protected command/response unchanged, and calls at a counter of the wrong parity are refused. CV certificates and key containers are NOT decided (they need signatures / PBKDF2 on symbolic data); tamper detection is not asserted under an uninterpreted MAC',
  'trusted: CBMC; stubs/belt_block_uf.c; SM states laid out by hand with equal keys and counters', 'DESIGN.md 8.6')
NA['C02'] = 'sign/verify completeness and rejection need 256-bit EC scalar multiplication on symbolic data (a single 64x64 Montgomery step at n = 3 has no verdict in 600 s); the range-check fragments of the design (over nondeterministic EC kernels) were not built in this session'
NA['C04'] = 'key agreement of honest runs / divergence of tampered runs need EC scalar multiplication, KDF and MAC on symbolic data; the per-step fragments of the design (point validation order, confirmation-tag transcript) were not built in this session'
NA['C16'] = 'as C02: the verification equations of bign96/g12s/dstu and pfok need multi-word field/curve arithmetic on symbolic data; range-check fragments not built in this session'
