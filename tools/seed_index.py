#!/usr/bin/env python3
"""archive seeded changes under /verif/seeded/<PID>-mN/ and (re)generate seeded/INDEX.md.
Sources: /tmp/seed/<PID>_out/mN.{diff,txt}, mN_demo.c, /tmp/seed/confirm*.log (independent confirmation),
/tmp/seed/seedtest*.log (runs of the registered checks against the change, last run wins)."""
import os, re, json, glob, shutil
V = os.path.dirname(os.path.dirname(os.path.abspath(__file__)))
S = os.path.join(V, 'seeded'); os.makedirs(S, exist_ok=True)
conf = {}
for f in sorted(glob.glob('/tmp/seed/confirm*.log')):
    for l in open(f):
        try:
            d = json.loads(l); m = re.search(r'/(C\d+)_out/m(\d)\.diff', d['patch']); conf['%s-m%s' % m.groups()] = d
        except Exception: pass
tests = {}
for f in sorted(glob.glob('/tmp/seed/seedtest*.log')):
    cur = None
    for l in open(f, errors='replace'):
        m = re.match(r'== (C\d+) m(\d)', l)
        if m: cur = '%s-m%s' % m.groups(); tests[cur] = dict(viol=[], exit=None, tier_line=''); continue
        if cur is None: continue
        m = re.search(r'VIOLATION property=\S+ replay=/verif/replay/(\S+?)\.json', l)
        if m: tests[cur]['viol'].append(m.group(1))
        m = re.match(r'\[C\d+\] (\S+)\s+VIOLATION', l)
        if m: tests[cur]['viol'].append(m.group(1))
        m = re.match(r'EXIT (\d+)', l)
        if m: tests[cur]['exit'] = int(m.group(1))
        if ' tier=' in l: tests[cur]['tier_line'] = l.strip()
extra = {}
p = os.path.join(S, 'notes.json')
if os.path.exists(p): extra = json.load(open(p))
rows = []
for out in sorted(glob.glob('/tmp/seed/C*_out')):
    pid = os.path.basename(out)[:-4]
    for n in '123':
        key = '%s-m%s' % (pid, n)
        if not os.path.exists(os.path.join(out, 'm%s.diff' % n)): continue
        c = conf.get(key, {})
        if not c.get('confirmed'): continue          # keep a change only after independent confirmation
        d = os.path.join(S, key); os.makedirs(d, exist_ok=True)
        shutil.copy(os.path.join(out, 'm%s.diff' % n), os.path.join(d, 'patch.diff'))
        for src, dst in (('m%s_demo.c' % n, 'demo.c'), ('m%s.txt' % n, 'notes.txt')):
            if os.path.exists(os.path.join(out, src)): shutil.copy(os.path.join(out, src), os.path.join(d, dst))
        notes = open(os.path.join(d, 'notes.txt'), errors='replace').read() if os.path.exists(os.path.join(d, 'notes.txt')) else ''
        t = tests.get(key, {})
        caught = t.get('exit') == 1
        meta = dict(id=key, property=pid, summary=' '.join(notes.split())[:600],
                    confirmed=dict(applies=c.get('applies'), builds=c.get('builds'), pinned_tests_pass=c.get('tests_pass'),
                                   demo_exit_with_change=c.get('demo_with_change'), demo_exit_clean=c.get('demo_clean'),
                                   how='tools/seedconfirm.py in a scratch worktree of /repo HEAD: git apply, cmake build, ctest, demo with/without the change'),
                    check=dict(ran='tools/seedtest.py %s patch.diff (registered quick check, scratch worktree)' % pid, caught=caught, exit=t.get('exit'),
                               obligations=sorted(set(t.get('viol', [])))[:8], summary=t.get('tier_line', '')),
                    remark=extra.get(key, ''))
        json.dump(meta, open(os.path.join(d, 'meta.json'), 'w'), indent=1)
        rows.append(meta)
with open(os.path.join(S, 'INDEX.md'), 'w') as f:
    f.write('# Seeded changes (written by independent sub-agents from the property text alone; each confirmed by tools/seedconfirm.py)\n\n')
    f.write('| id | what the change is / needs | caught by the quick check? | obligations that flagged it / why missed |\n|---|---|---|---|\n')
    for m in rows:
        why = ', '.join(m['check']['obligations']) if m['check']['caught'] else (m['remark'] or 'missed')
        f.write('| %s | %s | %s | %s |\n' % (m['id'], m['summary'][:220].replace('|', '/'), 'yes' if m['check']['caught'] else ('not run' if m['check']['exit'] is None else 'NO'), why.replace('|', '/')))
    n = len(rows); c = sum(m['check']['caught'] for m in rows)
    f.write('\n%d changes kept, %d caught by the quick tier of the property they were written against.\n' % (n, c))
print('seeded:', len(rows), 'caught', sum(m['check']['caught'] for m in rows))
