#!/usr/bin/env python3
"""writes /verif/MANIFEST.json from the table below (kept in one place so it stays valid)"""
import json, os, subprocess
V = os.path.dirname(os.path.dirname(os.path.abspath(__file__)))
TECH = 'bounded symbolic model checking of the real C translation units (goto-cc + CBMC 6.11, SAT/SMT back ends), counterexamples replayed natively'
CLAIMED = {
 # id: (level text, level_note, design_ref, technique override)
}
NA = {}
exec(open(os.path.join(V, 'tools', 'manifest_table.py')).read())
hooks_commits = subprocess.run(['git', '-C', '/repo', 'log', '--format=%H %s', '--grep=^verif hook'], capture_output=True, text=True).stdout.strip().splitlines()
m = dict(
  version=1,
  setup_cmd='python3 tools/setup.py',
  hooks=dict(guard='BEE2_VERIF', enable='-DBEE2_VERIF plus -DBEE2_VERIF_WORD=16|32 and/or -DBEE2_VERIF_BLOB_EXACT, passed by vp_check.py to goto-cc/gcc when it recompiles /repo sources',
             baseline_off_cmd='cmake -G Ninja -B /repo/_build -S /repo && cmake --build /repo/_build && ctest --test-dir /repo/_build -j8 --timeout 900',
             source_commits=[l.split()[0] for l in hooks_commits], add_only=True),
  engines=[dict(name='vp_check', path='vp_check.py', serves_properties=sorted(CLAIMED), kind_free_text='goto-cc + cbmc 6.11 (cadical/kissat/z3/cvc5) on real /repo sources; own LLVM-IR->SMT-LIB encoder for btok_pwd.c')],
  checks=[], notes='see DESIGN.md', not_applicable=[dict(property_id=k, reason=v) for k, v in sorted(NA.items())])
for pid in sorted(CLAIMED):
    text, note, ref, tech = CLAIMED[pid]
    m['checks'].append(dict(
        property_id=pid,
        quick_cmd='python3 vp_check.py %s --tier quick' % pid,
        thorough_cmd='python3 vp_check.py %s --tier thorough' % pid,
        evidence_file='evidence/%s.json' % pid,
        replay_cmd_template='python3 vp_check.py --replay {path}',
        engine='vp_check',
        level_claimed=dict(category='model_checking', text=text, design_ref=ref),
        level_note=note,
        technique=tech or TECH))
json.dump(m, open(os.path.join(V, 'MANIFEST.json'), 'w'), indent=1)
print('MANIFEST.json:', len(m['checks']), 'checks,', len(m['not_applicable']), 'not applicable')
