from vp_check import Ob

META = dict(
    not_decided=[
        'bign/bign96/bake/bels/bpki/btok/dstu/g12s/pfok/stb99 high-level functions: their working state is filled by EC / big-number arithmetic that does not fit the solver budget (bels share/recover: symex 420 s / 9.5 GB in the probe); their blocks are released through the same blobClose() that is covered here',
        'botpOCRARand/Verify (suite parser on symbolic strings)',
        'secrets on the C stack (local arrays, registers): outside the property text (heap blocks)',
        'that the optimiser keeps the volatile stores of memWipe is a compiler guarantee (K-lemma is source level)',
        'blobResize (realloc may move an unwiped block): no function of the covered list uses it (bake.c, util.c do)',
        'data lengths other than the listed concrete instances',
    ],
    assumptions=[
        'memWipe/memFree/memAlloc replaced by the ghost monitor harness/C15/wipe_model.c (pattern 0xA5, coverage table, arbitrary octet index at free)',
        'belt block cipher, bash-f, beltPolyMul uninterpreted (outputs arbitrary), beltPolyMul stub overwrites its whole stack area with arbitrary values',
        'REL profile (NDEBUG), blob.c real with exact-size blobs (BEE2_VERIF_BLOB_EXACT), memIsDisjoint2 object-aware (harness/C15/disjoint_model.c)',
        'native replay links a native twin of the monitor (allocation table instead of CBMC object sizes) with the REAL kernels',
    ],
)
MEM = ('src/core/mem.c', {'remove': ['memWipe', 'memFree', 'memAlloc', 'memIsDisjoint2']})
CORE = [MEM, 'src/core/util.c', 'src/core/u32.c', 'src/core/u64.c', 'src/core/u16.c', 'src/core/word.c', 'src/core/blob.c']
B = 'src/crypto/belt/'
BLOCK = (B + 'belt_block.c', {'remove': ['beltBlockEncr', 'beltBlockEncr2', 'beltBlockEncr3', 'beltBlockDecr', 'beltBlockDecr2', 'beltBlockDecr3']})
LCL = (B + 'belt_lcl.c', {'remove': ['beltPolyMul', 'beltPolyMul_deep']})
MODES = [B + f for f in ('belt_ecb.c', 'belt_cbc.c', 'belt_cfb.c', 'belt_ctr.c', 'belt_mac.c', 'belt_dwp.c', 'belt_che.c', 'belt_kwp.c', 'belt_wbl.c',
                         'belt_bde.c', 'belt_sde.c', 'belt_krp.c', 'belt_hmac.c', 'belt_hash.c', 'belt_compr.c', 'belt_pbkdf.c', 'belt_fmt.c')]
BELT = CORE + ['src/math/ww.c', 'src/math/zz/zz_add.c', 'src/math/zz/zz_mul.c', LCL, BLOCK] + MODES
MON = ['harness/C15/wipe_model.c', 'harness/C15/disjoint_model.c', 'harness/C15/polymul_scribble.c']
FS = ['--max-field-sensitivity-array-size', '2048']   # botp/brng states are 700..1300 octets: below this bound CBMC loses the constants stored in the state (filled, digit)

def wipe(name, which, tuples, srcs, stub_files, funcs, stubs, timeout=240, **kw):
    inst = [('w_%d_%d_%d' % t, '%s, %d, %d, %d' % ((which,) + t)) for t in tuples]
    d = dict(name='c15_wipe_' + name, harness='harness/C15/wipe.c', instances=inst, srcs=srcs, stub_files=stub_files + MON, blob_exact=True, replay='stub', native_stub_files=['harness/C15/wipe_model.c'],
             unwind=70, unwind_rules=[(r'^(belt|bash|brng|botp)\w+Step\w*\.\d+$', 8), (r'^memFree\.', 10), (r'^brngBlockInc\.', 5)], timeout=timeout, mem_gb=6, cbmc_extra=FS,
             funcs=funcs, stubs=stubs + ['wipe_model (memWipe/memFree/memAlloc ghost monitor)'],
             bound='concrete (data length, second length, key length) tuples %s; key/password, data, iv, mac/header/otp symbolic' % (tuples,))
    d.update(kw)
    return Ob(**d)

def obligations(tier):
    obs = []
    UF = ['stubs/belt_block_uf.c']; UFE = ['stubs/belt_block_uf_e.c']
    u, ue = ['belt_block_uf', 'polymul_uf+scribble'], ['belt_block_uf_e', 'polymul_uf+scribble']
    for nm, tu in (('ECB_E', [(16, 0, 16), (33, 0, 32)]), ('ECB_D', [(16, 0, 24), (33, 0, 32)]), ('CBC_E', [(16, 0, 16), (33, 0, 32)]), ('CBC_D', [(16, 0, 24), (33, 0, 32)]),
                   ('BDE_E', [(16, 0, 16), (32, 0, 32)]), ('BDE_D', [(16, 0, 24), (32, 0, 32)])):
        obs.append(wipe('belt' + nm, nm, tu, BELT, UF, ['belt%s%scr' % (nm[:3], 'En' if nm[4] == 'E' else 'De')], u))
    for nm, fn, tu in (('CFB_E', 'beltCFBEncr', [(0, 0, 16), (17, 0, 32)]), ('CFB_D', 'beltCFBDecr', [(1, 0, 24), (17, 0, 32)]), ('CTR', 'beltCTR', [(0, 0, 16), (17, 0, 32)]),
                       ('MAC', 'beltMAC', [(0, 0, 16), (17, 0, 32)]), ('DWP_W', 'beltDWPWrap', [(0, 0, 16), (17, 7, 32)]), ('DWP_U', 'beltDWPUnwrap', [(0, 0, 16), (17, 7, 32)]),
                       ('CHE_W', 'beltCHEWrap', [(0, 0, 16), (17, 7, 32)]), ('CHE_U', 'beltCHEUnwrap', [(0, 0, 16), (17, 7, 32)]),
                       ('KWP_W', 'beltKWPWrap', [(16, 0, 16), (33, 0, 32)]), ('KWP_U', 'beltKWPUnwrap', [(32, 0, 24), (33, 0, 32)]),
                       ('SDE_E', 'beltSDEEncr', [(32, 0, 16), (48, 0, 32)]), ('SDE_D', 'beltSDEDecr', [(32, 0, 24), (48, 0, 32)]),
                       ('FMT_E', 'beltFMTEncr', [(2, 0, 16), (5, 0, 32)]), ('FMT_D', 'beltFMTDecr', [(2, 0, 24), (5, 0, 32)]),
                       ('KRP', 'beltKRP', [(0, 16, 16), (0, 16, 32), (0, 32, 32)]), ('HASH', 'beltHash', [(0, 0, 0), (33, 0, 0)]),
                       ('HMAC', 'beltHMAC', [(0, 0, 16), (33, 0, 32), (5, 0, 40)]), ('PBKDF2', 'beltPBKDF2', [(8, 1, 9), (0, 2, 33)])):
        obs.append(wipe(fn, nm, tu, BELT, UFE, [fn], ue))
    BR = BELT + ['src/crypto/brng.c']
    obs.append(wipe('brngCTRRand', 'BRNG_CTR', [(0, 0, 32), (5, 0, 32)], BR, UFE, ['brngCTRRand'], ue))
    obs.append(wipe('brngHMACRand', 'BRNG_HMAC', [(5, 16, 32), (32, 0, 16)], BR, UFE, ['brngHMACRand'], ue))
    BO = BELT + ['src/crypto/botp.c', 'src/core/dec.c', 'src/core/str.c', 'src/core/tm.c']
    for nm, fn in (('HOTP_R', 'botpHOTPRand'), ('HOTP_V', 'botpHOTPVerify'), ('TOTP_R', 'botpTOTPRand'), ('TOTP_V', 'botpTOTPVerify')):
        obs.append(wipe(fn, nm, [(6, 0, 32), (8, 0, 16)] if nm.startswith('HOTP') else [(7, 0, 32)], BO, UFE, [fn], ue))
    obs.append(wipe('bashHash', 'BASH', [(0, 16, 0), (40, 32, 0)], CORE + ['src/crypto/bash/bash_hash.c'], ['stubs/bashf_uf.c'], ['bashHash'], ['bashf_uf'], unwind=200))
    # K-lemma on the REAL memWipe
    obs.append(Ob(name='c15_memWipe_real', harness='harness/C15/memwipe.c', entry='h_memwipe', srcs=['src/core/mem.c', 'src/core/util.c'], unwind=60, timeout=300, replay='asan',
                  funcs=['memWipe'], bound='count symbolic 0..40, buffer end-aligned inside a guarded array (8 guard octets on both sides), first call (wipe counter 0)'))
    return obs
