from vp_check import Ob

META = dict(
    not_decided=['vector bash-f variants (SSE2/AVX2/AVX-512/NEON): goto-cc cannot parse the intrinsics',
                 'equality with the standard through the monolithic belt-hash (sponge/brng glue is checked over an uninterpreted hash)'],
    assumptions=['bash-f model in harness/C03/bashf.c written from STB 34.101.77 (loop form, permutation table, LFSR constants)'],
)

def obligations(tier):
    obs = []
    core = ['src/core/mem.c', 'src/core/util.c', 'src/core/u64.c', 'src/core/u32.c']
    obs.append(Ob(name='c03_bashF64_eq_spec', harness='harness/C03/bashf.c', entry='h_bashf', srcs=['src/crypto/bash/bash_f.c'] + core,
                  unwind=200, timeout=600, backend=['kissat', 'cadical'], funcs=['bashF', 'bashF0 (bash_f64.c)'], bound='all 2^1536 states, 24 rounds', checks=[]))
    obs.append(Ob(name='c03_bashF32_eq_spec', harness='harness/C03/bashf.c', entry='h_bashf', cfgdefs=['BASH_32'], srcs=['src/crypto/bash/bash_f.c'] + core,
                  unwind=200, timeout=900, backend=['kissat', 'cadical'], funcs=['bashF', 'bashF0 (bash_f32.c)'], bound='all 2^1536 states, 24 rounds, BASH_32 build', checks=[]))
    br = ['src/core/mem.c', 'src/core/util.c', 'src/core/blob.c', 'src/core/word.c', 'src/core/u32.c', 'src/core/u64.c', 'src/core/u16.c']
    for w in (64, 32):
        obs.append(Ob(name='c03_brngBlockInc_w%d' % w, harness='harness/C03/brng_inc.c', entry='h_inc', word=w, srcs=br, unwind=40, timeout=300,
                      funcs=['brngBlockInc'], bound='all 2^256 counters x all r, B_PER_W=%d' % w))
    bo = ['src/crypto/botp.c', 'src/core/dec.c', 'src/core/mem.c', 'src/core/util.c', 'src/core/str.c']
    digs = [6] if tier == 'quick' else [4, 5, 6, 7, 8, 9]
    for d in digs:
        obs.append(Ob(name='c03_botpDT_d%d' % d, harness='harness/C03/botp_k.c', entry='h_dt', defs=['DIGIT=%d' % d], srcs=bo, unwind=40, timeout=900,
                      backend=['cadical', 'kissat', 'cvc5int', 'z3'],
                      funcs=['botpDT', 'decFromU32'], bound='all MACs of length 20..32, digit=%d' % d))
    obs.append(Ob(name='c03_botpCtrNext', harness='harness/C03/botp_k.c', entry='h_ctrnext', srcs=bo, unwind=10, timeout=120,
                  funcs=['botpCtrNext'], bound='all 2^64 counters'))
    # G-layer: brng CTR against the standard's algorithm over the uninterpreted cipher
    B = 'src/crypto/belt/'
    BLOCK = (B + 'belt_block.c', {'remove': ['beltBlockEncr', 'beltBlockEncr2', 'beltBlockEncr3', 'beltBlockDecr', 'beltBlockDecr2', 'beltBlockDecr3']})
    pairs = ((32, 0), (8, 0), (8, 4)) if tier == 'quick' else ((0, 0), (1, 0), (31, 1), (32, 0), (32, 32), (33, 0), (40, 0), (5, 40), (5, 27), (64, 8))
    obs.append(Ob(name='c03_brngCTR_eq_standard', harness='harness/C03/brng_ctr_model.c', instances=[('h_%d_%d' % p, '%d, %d' % p) for p in pairs],
                  srcs=['src/crypto/brng.c', B + 'belt_hash.c', B + 'belt_compr.c', B + 'belt_lcl.c', B + 'belt_hmac.c', BLOCK] + br,
                  stub_files=['stubs/belt_block_uf_e.c'], stubs=['belt_block_uf_e'], unwind=140, unwind_rules=[(r'^(belt|brng)\w+Step\w*\.\d+$', 6), (r'^brngBlockInc\.0$', 5)],
                  timeout=900, mem_gb=16, cbmc_extra=['--max-field-sensitivity-array-size', '1024'], funcs=['brngCTRStart', 'brngCTRStepR', 'brngCTRStepG', 'beltHashStepH', 'beltHashStepG'],
                  bound='request length pairs %s (concrete), key/iv/buffer contents symbolic' % (list(pairs),)))
    return obs
