from vp_check import Ob

META = dict(
    not_decided=['CV certificates (btok_cvc.c) and bpki containers: need bign signatures / PBKDF2 on symbolic data; their DER framing is covered under C08 only for bign parameters',
                 'rejection of altered protected octets: under an uninterpreted MAC the solver can pick colliding tags, so tamper detection is not asserted',
                 'data lengths above the stated instances (property: 0..300)', 'sequences of several wraps/unwraps; counter desynchronisation beyond parity'],
    assumptions=['belt cipher uninterpreted (stubs/belt_block_uf.c); SM states laid out by hand with equal symbolic keys and counter (btokSMStart not executed)'],
)
B = 'src/crypto/belt/'
SRCS = ['src/crypto/btok/btok_sm.c', 'src/core/apdu.c', 'src/core/der.c', 'src/core/oid.c', 'src/core/str.c', 'src/core/mem.c', 'src/core/util.c', 'src/core/blob.c', 'src/core/u32.c', 'src/core/u64.c', 'src/core/word.c', 'src/core/u16.c',
        (B + 'belt_block.c', {'remove': ['beltBlockEncr', 'beltBlockEncr2', 'beltBlockEncr3', 'beltBlockDecr', 'beltBlockDecr2', 'beltBlockDecr3']}),
        B + 'belt_lcl.c', B + 'belt_mac.c', B + 'belt_cfb.c', B + 'belt_krp.c', B + 'belt_compr.c']

def obligations(tier):
    q = tier == 'quick'
    cmd = [('c_%d_%d' % (n, r), '0, %d, %d' % (n, r)) for (n, r) in (((0, 3), (16, 6)) if q else [(n, r) for n in (0, 1, 5, 15, 16, 17, 20) for r in (0, 1, 2, 3, 4, 5, 6)])]
    rsp = [('r_%d' % n, '1, %d, 0' % n) for n in ((0, 1, 16) if q else (0, 1, 5, 15, 16, 17, 20))]
    common = dict(harness='harness/C17/sm.c', srcs=SRCS, stub_files=['stubs/belt_block_uf.c'], stubs=['belt_block_uf'], unwind=60,
                  unwind_rules=[(r'^belt\w+Step\w*\.\d+$', 4)], cbmc_extra=['--max-field-sensitivity-array-size', '512'], timeout=900, mem_gb=20)
    return [Ob(name='c17_sm_cmd', instances=cmd, funcs=['btokSMCmdWrap', 'btokSMCmdUnwrap', 'apduCmdEnc', 'apduCmdDec'],
               bound='%d (data length, Le form) tuples: data length in the list, Le in {0, 1, 256, 257, 65536, 12345, symbolic}; CLA/INS/P1/P2, data, keys and the 128-bit counter symbolic (both parities)' % len(cmd), **common),
            Ob(name='c17_sm_resp', instances=rsp, funcs=['btokSMRespWrap', 'btokSMRespUnwrap'],
               bound='%d response data lengths; status words, data, keys and counter symbolic (both parities)' % len(rsp), **common)]
