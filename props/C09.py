from vp_check import Ob

META = dict(
    not_decided=[
        'bign/bign96/bake/bels/bpki/btok/dstu/g12s/pfok high-level functions: their error paths run EC / big-number arithmetic (bels share/recover: symex 420 s / 9.5 GB in the probe) - argument checks that come before the arithmetic were not transcribed for them',
        'error classes that depend on evaluating a kernel (ERR_BAD_PARAMS from bignParamsVal, ERR_BAD_PUBKEY, ERR_BAD_ANG, ERR_BAD_RNG) - see C12',
        'botpOCRARand/Verify (suite parser with symbolic strings)',
        'invalid (NULL / dangling) pointers: memIsValid() only tests for NULL, the general pointer clause of the headers is not checkable',
        'verify-before-release and allocation-failure families: data lengths beyond the listed concrete instances',
        'allocation failure: that ERR_OUTOFMEMORY is returned exactly when an allocation failed is asserted through the harness-visible disjunction result in {ERR_OK, ERR_OUTOFMEMORY} + no NULL dereference + no leak',
    ],
    assumptions=[
        'belt block cipher = uninterpreted function (stubs/belt_block_uf_e.c or belt_block_uf.c), bash-f = uninterpreted function (stubs/bashf_uf.c), beltPolyMul = uninterpreted function (harness/C09/polymul_uf.c)',
        'memIsDisjoint2 modelled object-aware (harness/C09/mem_model.c): buffers in different objects are disjoint, inside one object the real interval test decides', 'REL profile (NDEBUG); blob.c real with exact-size blobs (BEE2_VERIF_BLOB_EXACT)',
        'argument table transcribed from the \\expect{ERR_...} lines of belt.h, bash.h, botp.h, brng.h (bash.h writes ERR_BAD_PARAM, err.h only defines ERR_BAD_PARAMS: taken as ERR_BAD_PARAMS)',
        'FMT argument checks: beltFMT_keep/Start/StepE/StepD replaced by stubs that assert their documented \\pre lines (harness/C09/fmt_pre.c); counterexamples are replayed on the real belt_fmt.c',
    ],
)

MEM = ('src/core/mem.c', {'remove': ['memIsDisjoint2', 'memWipe']})
DJ = 'harness/C09/mem_model.c'
CORE = [MEM, 'src/core/util.c', 'src/core/u32.c', 'src/core/u64.c', 'src/core/u16.c', 'src/core/word.c', 'src/core/blob.c']
B = 'src/crypto/belt/'
BLOCK = (B + 'belt_block.c', {'remove': ['beltBlockEncr', 'beltBlockEncr2', 'beltBlockEncr3', 'beltBlockDecr', 'beltBlockDecr2', 'beltBlockDecr3']})
LCL = (B + 'belt_lcl.c', {'remove': ['beltPolyMul', 'beltPolyMul_deep']})
MODES = [B + f for f in ('belt_ecb.c', 'belt_cbc.c', 'belt_cfb.c', 'belt_ctr.c', 'belt_mac.c', 'belt_dwp.c', 'belt_che.c', 'belt_kwp.c', 'belt_wbl.c',
                         'belt_bde.c', 'belt_sde.c', 'belt_krp.c', 'belt_hmac.c', 'belt_hash.c', 'belt_compr.c', 'belt_pbkdf.c')]
def ll(path, names): return (path, {'remove': names})
LL_BELT = [ll(B + 'belt_ecb.c', ['beltECBStart', 'beltECBStepE', 'beltECBStepD']), ll(B + 'belt_cbc.c', ['beltCBCStart', 'beltCBCStepE', 'beltCBCStepD']),
           ll(B + 'belt_cfb.c', ['beltCFBStart', 'beltCFBStepE', 'beltCFBStepD']), ll(B + 'belt_ctr.c', ['beltCTRStart', 'beltCTRStepE']),
           ll(B + 'belt_mac.c', ['beltMACStart', 'beltMACStepA', 'beltMACStepG']),
           ll(B + 'belt_dwp.c', ['beltDWPStart', 'beltDWPStepE', 'beltDWPStepI', 'beltDWPStepA', 'beltDWPStepG', 'beltDWPStepD', 'beltDWPStepV']),
           ll(B + 'belt_che.c', ['beltCHEStart', 'beltCHEStepE', 'beltCHEStepI', 'beltCHEStepA', 'beltCHEStepG', 'beltCHEStepD', 'beltCHEStepV']),
           ll(B + 'belt_wbl.c', ['beltWBLStart', 'beltWBLStepE', 'beltWBLStepD', 'beltWBLStepD2']), B + 'belt_kwp.c',
           ll(B + 'belt_bde.c', ['beltBDEStart', 'beltBDEStepE', 'beltBDEStepD']), ll(B + 'belt_sde.c', ['beltSDEStart', 'beltSDEStepE', 'beltSDEStepD']),
           ll(B + 'belt_krp.c', ['beltKRPStart', 'beltKRPStepG']), ll(B + 'belt_hmac.c', ['beltHMACStart', 'beltHMACStepA', 'beltHMACStepG']), B + 'belt_pbkdf.c',
           B + 'belt_compr.c', LCL]
LL_BASH = [ll('src/crypto/bash/bash_hash.c', ['bashHashStart', 'bashHashStepH', 'bashHashStepG'])]
LL_BOTP = [ll('src/crypto/botp.c', ['botpHOTPStart', 'botpHOTPStepS', 'botpHOTPStepR', 'botpHOTPStepV', 'botpTOTPStart', 'botpTOTPStepR', 'botpTOTPStepV']),
           ll(B + 'belt_hmac.c', ['beltHMACStart', 'beltHMACStepA', 'beltHMACStepG']), B + 'belt_compr.c', LCL, 'src/core/dec.c', 'src/core/str.c', 'src/core/tm.c']
LL_BRNG = [ll('src/crypto/brng.c', ['brngHMACStart', 'brngHMACStepR']), ll(B + 'belt_hmac.c', ['beltHMACStart', 'beltHMACStepA', 'beltHMACStepG']), B + 'belt_compr.c', LCL]
LLS = ['harness/C09/lowlevel_count.c', DJ]
FMT_PRE = (B + 'belt_fmt.c', {'remove': ['beltFMT_keep', 'beltFMTStart', 'beltFMTStepE', 'beltFMTStepD']})
BELT = CORE + ['src/math/ww.c', LCL, BLOCK] + MODES
UF = ['stubs/belt_block_uf.c', 'harness/C09/polymul_uf.c', DJ]
UFE = ['stubs/belt_block_uf_e.c', 'harness/C09/polymul_uf.c', DJ]
BASH = ['src/crypto/bash/bash_hash.c']
BOTP = ['src/crypto/botp.c', 'src/core/dec.c', 'src/core/str.c', 'src/core/tm.c']
BRNG = ['src/crypto/brng.c']
FS = ['--max-field-sensitivity-array-size', '512']

ARGS_BELT = ['ECB_E_LEN', 'ECB_E_COUNT', 'ECB_D_LEN', 'ECB_D_COUNT', 'CBC_E_LEN', 'CBC_E_COUNT', 'CBC_D_LEN', 'CBC_D_COUNT',
             'CFB_E_LEN', 'CFB_D_LEN', 'CTR_LEN', 'MAC_LEN', 'DWP_W_LEN', 'DWP_U_LEN', 'CHE_W_LEN', 'CHE_U_LEN',
             'KWP_W_LEN', 'KWP_W_COUNT', 'KWP_U_LEN', 'KWP_U_COUNT', 'BDE_E_LEN', 'BDE_E_COUNT', 'BDE_D_LEN', 'BDE_D_COUNT',
             'SDE_E_LEN', 'SDE_E_COUNT', 'SDE_D_LEN', 'SDE_D_COUNT', 'KRP_N', 'KRP_M', 'KRP_MGTN', 'PBKDF2_ITER']
ARGS_FMT = ['FMT_E_COUNTLO', 'FMT_E_LEN', 'FMT_E_COUNTHI', 'FMT_E_IVOVL', 'FMT_D_COUNTLO', 'FMT_D_LEN', 'FMT_D_COUNTHI', 'FMT_D_IVOVL']
ARGS_BOTP = ['HOTP_R_DIGIT', 'TOTP_R_DIGIT', 'TOTP_R_TIME', 'HOTP_V_DIGIT', 'TOTP_V_DIGIT', 'TOTP_V_TIME']

def args_ob(name, cases, srcs, stub_files, defs, funcs, stubs, bound, **kw):
    d = dict(name=name, harness='harness/C09/args.c', defs=defs, instances=[('a_' + c.lower(), c) for c in cases], srcs=srcs, stub_files=stub_files,
             blob_exact=True, unwind=3, unwindset={'vp_eq.0': 66}, timeout=120, mem_gb=6, funcs=funcs, stubs=stubs, bound=bound)
    d.update(kw)
    return Ob(**d)

def obligations(tier):
    obs = []
    A = 'all values of the argument under test OUTSIDE its documented domain (full width), other scalars symbolic inside theirs (data lengths <= 48), all data/keys symbolic; '
    obs.append(args_ob('c09_args_belt', ARGS_BELT, CORE + LL_BELT, LLS + ['harness/C09/polymul_uf.c'], ['KC_LL'],
                       ['beltECBEncr', 'beltECBDecr', 'beltCBCEncr', 'beltCBCDecr', 'beltCFBEncr', 'beltCFBDecr', 'beltCTR', 'beltMAC', 'beltDWPWrap', 'beltDWPUnwrap',
                        'beltCHEWrap', 'beltCHEUnwrap', 'beltKWPWrap', 'beltKWPUnwrap', 'beltBDEEncr', 'beltBDEDecr', 'beltSDEEncr', 'beltSDEDecr', 'beltKRP', 'beltPBKDF2'],
                       ['lowlevel_count (every low-level Start/Step function = call counter)'], A + '%d (function, condition) pairs' % len(ARGS_BELT)))
    obs.append(args_ob('c09_args_fmt', ARGS_FMT, CORE + [FMT_PRE], ['harness/C09/fmt_pre.c', DJ], ['KC_PRE'], ['beltFMTEncr', 'beltFMTDecr'], ['fmt_pre (low-level FMT = asserted \\pre lines)'],
                       A + 'count < 2, len, count > 600 (ERR_NOT_IMPLEMENTED), iv inside dest'))
    # the suspected defect: mod is never checked. One obligation per (function, side) so that each finding has its own verdict line
    for fn in ('E', 'D'):
        for side, txt in (('MODLO', 'mod in {0, 1}'), ('MODHI', 'all mod in (65536, 2^32)')):
            obs.append(args_ob('c09_args_fmt%s_%s' % (fn, side.lower()), ['FMT_%s_%s' % (fn, side)], CORE + [FMT_PRE], ['harness/C09/fmt_pre.c', DJ], ['KC_PRE'],
                               ['beltFMT%scr' % ('En' if fn == 'E' else 'De')], ['fmt_pre (low-level FMT = asserted \\pre lines)'],
                               txt + ', count 2..24, len in {16,24,32}, data symbolic', replay='asan'))
    obs.append(args_ob('c09_args_bash', ['BASH_L'], CORE + LL_BASH, LLS, ['KC_LL'], ['bashHash'], ['lowlevel_count'], A + 'l == 0 || l % 16 != 0 || l > 256'))
    obs.append(args_ob('c09_args_botp', ARGS_BOTP, CORE + LL_BOTP, LLS, ['KC_LL'], ['botpHOTPRand', 'botpHOTPVerify', 'botpTOTPRand', 'botpTOTPVerify'],
                       ['lowlevel_count'], A + 'digit outside 6..8 (Rand: argument, Verify: strLen(otp) for all strings of <= 11 characters), t == TIME_ERR', unwind=14))
    # documented buffer-disjointness conditions
    obs.append(args_ob('c09_args_brngHMAC_overlap', ['BRNG_HMAC_OVL'], CORE + LL_BRNG, LLS, ['KC_LL'], ['brngHMACRand'], ['lowlevel_count'],
                       'iv (16 octets) starting at every offset inside buf (32 octets)'))
    for fn, case in (('beltDWPWrap', 'DWP_W_OVL'), ('beltCHEWrap', 'CHE_W_OVL')):
        obs.append(args_ob('c09_args_%s_overlap' % fn, [case], CORE + LL_BELT, LLS + ['harness/C09/polymul_uf.c'], ['KC_LL'], [fn], ['lowlevel_count'],
                           'mac (8 octets) starting at every offset inside dest (count1 = 16), len in {16,24,32}, data symbolic'))
    # ---- (2) verify-before-release
    W = BELT
    def unwrap(name, which, fn, tuples, timeout=200):
        inst = [('u_%d_%d_%d_%d' % t, '%s, %d, %d, %d, %d' % ((which,) + t)) for t in tuples]
        return Ob(name='c09_unwrap_' + name, harness='harness/C09/unwrap.c', instances=inst, srcs=W, stub_files=UFE, blob_exact=True,
                  unwind=70, unwind_rules=[(r'^belt\w+Step\w*\.\d+$', 8)], timeout=timeout, mem_gb=6, cbmc_extra=FS, funcs=[fn], stubs=['belt_block_uf_e', 'polymul_uf', 'mem_model'],
                  bound='concrete (count1, count2, len, in-place?) tuples %s; data, mac/header, key, iv symbolic' % (tuples,))
    aead = [(c1, c2, l, a) for c1 in (1, 16, 17, 33) for c2 in (0, 7, 16) for l in (16, 32) for a in (0, 1) if (c1, c2) in ((1, 0), (16, 7), (17, 16), (33, 0)) and (l == 32 or c1 == 16)]
    obs.append(unwrap('beltDWPUnwrap', 'DWP', 'beltDWPUnwrap', aead))
    obs.append(unwrap('beltCHEUnwrap', 'CHE', 'beltCHEUnwrap', aead))
    kwp = [(c, 0, l, a) for c in (32, 33, 48) for l in (16, 24, 32) for a in (0, 1) if l == 32 or c == 32]
    obs.append(unwrap('beltKWPUnwrap', 'KWP', 'beltKWPUnwrap', kwp))
    # ---- (3) allocation failure
    MEMA = ('src/core/mem.c', {'remove': ['memIsDisjoint2', 'memWipe', 'memAlloc', 'memFree']})
    COREA = [MEMA] + CORE[1:]
    BELTA = COREA + ['src/math/ww.c', LCL, BLOCK] + MODES + [B + 'belt_fmt.c']
    AM = ['harness/C09/alloc_model.c']
    def oom(fn, which, tuples, srcs, stub_files, stubs, **kw):
        inst = [('o_%d_%d_%d' % t, '%s, %d, %d, %d' % ((which,) + t)) for t in tuples]
        d = dict(name='c09_oom_' + fn, harness='harness/C09/oom.c', instances=inst, srcs=srcs, stub_files=stub_files + AM, blob_exact=True, malloc_may_fail=True,
                 unwind=90, unwind_rules=[(r'^(belt|bash|brng|botp)\w+Step\w*\.\d+$', 8), (r'^brngBlockInc\.', 5)], timeout=240, mem_gb=6,
                 cbmc_extra=['--max-field-sensitivity-array-size', '2048', '--memory-leak-check'], funcs=[fn], stubs=stubs + ['alloc_model', 'mem_model'], replay='asan',
                 bound='concrete (data length, second length, key length) tuples %s; every malloc may fail; key, data, iv, mac/header symbolic' % (tuples,))
        d.update(kw)
        return Ob(**d)
    for which, fn, tu, st in (('ECB_E', 'beltECBEncr', [(17, 0, 32)], UF), ('ECB_D', 'beltECBDecr', [(17, 0, 32)], UF), ('CBC_E', 'beltCBCEncr', [(17, 0, 32)], UF), ('CBC_D', 'beltCBCDecr', [(17, 0, 32)], UF),
                              ('CFB_E', 'beltCFBEncr', [(17, 0, 32)], UFE), ('CFB_D', 'beltCFBDecr', [(17, 0, 32)], UFE), ('CTR', 'beltCTR', [(17, 0, 32)], UFE), ('MAC', 'beltMAC', [(17, 0, 32)], UFE),
                              ('DWP_W', 'beltDWPWrap', [(17, 7, 32)], UFE), ('DWP_U', 'beltDWPUnwrap', [(17, 7, 32)], UFE), ('CHE_W', 'beltCHEWrap', [(17, 7, 32)], UFE), ('CHE_U', 'beltCHEUnwrap', [(17, 7, 32)], UFE),
                              ('KWP_W', 'beltKWPWrap', [(16, 0, 32)], UFE), ('KWP_U', 'beltKWPUnwrap', [(32, 0, 32)], UFE), ('HASH', 'beltHash', [(33, 0, 0)], UFE),
                              ('BDE_E', 'beltBDEEncr', [(32, 0, 32)], UF), ('BDE_D', 'beltBDEDecr', [(32, 0, 32)], UF), ('SDE_E', 'beltSDEEncr', [(32, 0, 32)], UFE), ('SDE_D', 'beltSDEDecr', [(32, 0, 32)], UFE),
                              ('FMT_E', 'beltFMTEncr', [(5, 0, 32)], UFE), ('FMT_D', 'beltFMTDecr', [(5, 0, 32)], UFE), ('KRP', 'beltKRP', [(0, 16, 32)], UFE),
                              ('HMAC', 'beltHMAC', [(33, 0, 32)], UFE), ('PBKDF2', 'beltPBKDF2', [(8, 2, 9)], UFE)):
        obs.append(oom(fn, which, tu, BELTA, st, ['belt_block_uf' if st is UF else 'belt_block_uf_e', 'polymul_uf']))
    obs.append(oom('brngCTRRand', 'BRNG_CTR', [(5, 0, 32)], BELTA + BRNG, UFE, ['belt_block_uf_e']))
    obs.append(oom('brngHMACRand', 'BRNG_HMAC', [(5, 16, 32)], BELTA + BRNG, UFE, ['belt_block_uf_e']))
    for which, fn in (('HOTP_R', 'botpHOTPRand'), ('HOTP_V', 'botpHOTPVerify'), ('TOTP_R', 'botpTOTPRand'), ('TOTP_V', 'botpTOTPVerify')):
        obs.append(oom(fn, which, [(6, 0, 32)], BELTA + BOTP, UFE, ['belt_block_uf_e']))
    obs.append(oom('bashHash', 'BASH', [(40, 32, 0)], COREA + BASH, ['stubs/bashf_uf.c', DJ], ['bashf_uf'], unwind=200))
    return obs
