from props.C07_deep import *
META=dict(not_decided=NOT_DECIDED, assumptions=[])
obligations = deep_obligations
