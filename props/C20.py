"""C20 - PIN/CAN/PUK automaton (btok_pwd.c).

goto-cc 6.11 aborts on this unit (pre-decrement of an enum bit-field), so the encoding is
made from clang's LLVM IR of the unmodified file by tools/ir2smt.py (loop-free IR -> SMT-LIB2).
T : (state octet, event) -> (state octet, accepted).  z3 decides, cvc5 cross-checks every query.
"""
import os, re, json, subprocess, time
from vp_check import Ob, sh, cfg_flags, REPO, VERIF

SRC = 'src/crypto/btok/btok_pwd.c'
EVN = ['pin_ok', 'pin_bad', 'pin_deactivate', 'pin_activate', 'can_ok', 'can_bad', 'puk_ok', 'puk_bad', 'auth_close']
PINN = ['puk0', 'puk1', 'puk2', 'puk3', 'puk4', 'puk5', 'puk6', 'puk7', 'puk8', 'puk9', 'pin0', 'pin1', 'pind', 'pins', 'pin2', 'pin3']
AUTHN = ['auth_none', 'auth_pin', 'auth_can', 'auth_puk']

META = dict(
    not_decided=['bit-field encodings outside the enum ranges (pin > 15, auth > 3) are excluded by assumption',
                 'the header rule "CAN authentication must still be in force at the moment of the last PIN attempt" is stronger than the property text and is not demanded'],
    assumptions=['clang-14 -O1 lowering of btok_pwd.c is semantically the shipped function: checked on every run by the obligation c20_encoder_valid, which asks the solver for any (state, event) on which the SMT function and the gcc-built function (table of all 256x16 pairs) differ',
                 'persistent start state: any pin state, auth_none'],
    stubs=[],
)

PRELUDE = '''
(define-fun pinof ((s (_ BitVec 8))) (_ BitVec 8) (bvand s #x1f))
(define-fun authof ((s (_ BitVec 8))) (_ BitVec 8) (bvlshr s #x05))
(define-fun valid ((s (_ BitVec 8))) Bool (and (bvule (pinof s) #x0f) (bvule (authof s) #x03)))
(define-fun inv ((s (_ BitVec 8))) Bool (and (valid s) (=> (= (authof s) #x01) (= (pinof s) #x0f))))
(declare-const p1 (_ BitVec 8)) (declare-const p2 (_ BitVec 8)) (declare-const p3 (_ BitVec 8))
(define-fun Tn ((s (_ BitVec 8)) (e (_ BitVec 32))) (_ BitVec 8) (btokPwdTransition_m0 s p1 p2 p3 e))
(define-fun Tok ((s (_ BitVec 8)) (e (_ BitVec 32))) Bool (not (= (btokPwdTransition_ret s p1 p2 p3 e) (_ bv0 32))))
(define-fun padkept ((s (_ BitVec 8)) (e (_ BitVec 32))) Bool (and (= (btokPwdTransition_m1 s p1 p2 p3 e) p1) (= (btokPwdTransition_m2 s p1 p2 p3 e) p2) (= (btokPwdTransition_m3 s p1 p2 p3 e) p3)))
(define-fun att ((p (_ BitVec 8))) (_ BitVec 8) (ite (= p #x0f) #x03 (ite (= p #x0e) #x02 (ite (or (= p #x0d) (= p #x0b)) #x01 #x00))))
'''

def E(n): return '(_ bv%d 32)' % EVN.index(n)
def P(n): return '#x%02x' % PINN.index(n)
def A(n): return '#x%02x' % AUTHN.index(n)

# one-step rules: SMT text over s, e, s2 (= Tn s e), ok ; python predicate over (pin, auth, ev, pin2, auth2, ok)
ONESTEP = {
 'M0_invariant': ('(and (inv s2) (=> (and (valid s) (= (authof s) #x00)) (inv s)))',
     lambda p, a, e, p2, a2, ok: p2 <= 15 and a2 <= 3 and (a2 != 1 or p2 == 15),
     'inductive invariant used by the other one-step rules: enum ranges closed, and auth_pin is only ever held in pin3; every persistent start satisfies it'),
 'M1_rejected_unchanged': ('(and (=> (not ok) (= s2 s)) (padkept s e) (valid s2))',
     lambda p, a, e, p2, a2, ok: (ok or (p2, a2) == (p, a)) and p2 <= 15 and a2 <= 3,
     'a FALSE return leaves the state bit-identical; padding octets untouched; enum ranges closed'),
 'M2_auth_most_recent': ('''(and (=> (and ok (= e %s)) (= (authof s2) %s)) (=> (and ok (= e %s)) (= (authof s2) %s)) (=> (and ok (= e %s)) (= (authof s2) %s))
     (=> (and ok (not (= e %s)) (not (= e %s)) (not (= e %s))) (or (= (authof s2) (authof s)) (= (authof s2) #x00))))''' % (
        E('pin_ok'), A('auth_pin'), E('can_ok'), A('auth_can'), E('puk_ok'), A('auth_puk'), E('pin_ok'), E('can_ok'), E('puk_ok')),
     lambda p, a, e, p2, a2, ok: (not ok) or (a2 == {0: 1, 4: 2, 6: 3}[e] if e in (0, 4, 6) else a2 in (a, 0)),
     'after an accepted X_ok the status is auth_X; no other event can gain or change a status, only keep or drop it'),
 'M3_pind_exit': ('(=> (and (= (pinof s) %s) (not (= (pinof s2) %s))) (and ok (= e %s) (= (authof s) %s)))' % (P('pind'), P('pind'), E('pin_activate'), A('auth_puk')),
     lambda p, a, e, p2, a2, ok: not (p == 12 and p2 != 12) or (ok and e == 3 and a == 3),
     'pind is left only by pin_activate under auth_puk'),
 'M4_puk0_absorbing': ('(=> (= (pinof s) %s) (= (pinof s2) %s))' % (P('puk0'), P('puk0')),
     lambda p, a, e, p2, a2, ok: p != 0 or p2 == 0,
     'puk0 (permanent block after ten wrong PUKs) is absorbing'),
 'M5_unblock_needs_puk': ('(=> (and (bvule (pinof s) #x0a) (bvugt (pinof s2) #x0a)) (and ok (or (= e %s) (= (authof s) %s))))' % (E('puk_ok'), A('auth_puk')),
     lambda p, a, e, p2, a2, ok: not (p <= 10 and p2 > 10) or (ok and (e == 6 or a == 3)),
     'a blocked PIN (puk0..puk9, pin0) is left only by puk_ok or while PUK-authenticated'),
 'M6_puk_counter': ('''(and (=> (and (bvuge (pinof s) #x01) (bvule (pinof s) #x0a) (= e %s)) (and ok (= (pinof s2) (bvsub (pinof s) #x01))))
     (=> (and (bvule (pinof s) #x0a) (not (= (pinof s2) (pinof s))))
         (or (and (= e %s) (= (pinof s2) (bvsub (pinof s) #x01)) (bvuge (pinof s) #x01))
             (and (= e %s) (= (pinof s2) %s) (bvuge (pinof s) #x01))
             (and (= e %s) (= (authof s) %s) (= (pinof s2) %s) (bvuge (pinof s) #x01)))))''' % (
        E('puk_bad'), E('puk_bad'), E('puk_ok'), P('pin3'), E('pin_deactivate'), A('auth_puk'), P('pind')),
     lambda p, a, e, p2, a2, ok: (not (1 <= p <= 10 and e == 7) or (ok and p2 == p - 1)) and
                                 (not (p <= 10 and p2 != p) or (p >= 1 and ((e == 7 and p2 == p - 1) or (e == 6 and p2 == 15) or (e == 2 and a == 3 and p2 == 12)))),
     'every wrong PUK while blocked consumes exactly one of the ten attempts; nothing else moves the PUK counter'),
 'M7_pin_counter': ('''(and (=> (and ok (= e %s)) (or (and (= (pinof s) %s) (= (pinof s2) %s)) (and (= (pinof s) %s) (= (pinof s2) %s)) (and (= (pinof s) %s) (= (pinof s2) %s))))
     (=> (and (= e %s) (or (= (pinof s) %s) (= (pinof s) %s) (= (pinof s) %s))) ok)
     (=> (and ok (= e %s)) (and (or (= (pinof s) %s) (= (pinof s) %s) (= (pinof s) %s)) (= (pinof s2) %s)))
     (=> (and (bvugt (att (pinof s2)) (att (pinof s))) (not (= (pinof s) %s)) (not (= (pinof s2) %s))) (and ok (or (= e %s) (= e %s)))))''' % (
        E('pin_bad'), P('pin3'), P('pin2'), P('pin2'), P('pins'), P('pin1'), P('pin0'),
        E('pin_bad'), P('pin3'), P('pin2'), P('pin1'),
        E('pin_ok'), P('pin1'), P('pin2'), P('pin3'), P('pin3'),
        P('pind'), P('pind'), E('pin_ok'), E('puk_ok')),
     lambda p, a, e, p2, a2, ok: (not (ok and e == 1) or (p, p2) in ((15, 14), (14, 13), (11, 10))) and
                                 (not (e == 1 and p in (15, 14, 11)) or ok) and
                                 (not (ok and e == 0) or (p in (11, 14, 15) and p2 == 15)) and
                                 (not (_att(p2) > _att(p) and p != 12 and p2 != 12) or (ok and e in (0, 6))),
     'an accepted wrong PIN consumes one attempt (pin3>pin2>pins, pin1>pin0), is accepted only with attempts left, and attempts grow only by pin_ok/puk_ok'),
 'M8_can_between': ('(=> (and (= (pinof s) %s) (not (= (pinof s2) %s))) (or (and (= e %s) (= (pinof s2) %s)) (and (= e %s) (= (authof s) %s) (= (pinof s2) %s))))' % (
        P('pins'), P('pins'), E('can_ok'), P('pin1'), E('pin_deactivate'), A('auth_puk'), P('pind')),
     lambda p, a, e, p2, a2, ok: not (p == 13 and p2 != 13) or (e == 4 and p2 == 11) or (e == 2 and a == 3 and p2 == 12),
     'the suspended state after the second wrong PIN is left towards the last attempt only by can_ok'),
}
def _att(p): return {15: 3, 14: 2, 13: 1, 11: 1}.get(p, 0)

def solvers(script, timeout=300):
    """-> (verdict 'sat'|'unsat'|'error', model text, seconds) ; z3 decides, cvc5 must agree"""
    t0 = time.time()
    out = {}
    for name, cmd in (('z3', ['z3', '-in']), ('cvc5', ['cvc5', '--lang=smt2', '--produce-models', '--bitblast=eager'])):
        try:
            p = subprocess.run(cmd, input=('(set-logic QF_BV)\n' + script).encode(), stdout=subprocess.PIPE, stderr=subprocess.PIPE, timeout=timeout)
            o = p.stdout.decode() + p.stderr.decode()
        except subprocess.TimeoutExpired:
            o = '(error "timeout")'
        out[name] = o
    def verdict(o):
        o2 = '\n'.join(l for l in o.splitlines() if 'model is not available' not in l and 'Cannot get value unless' not in l)
        if '(error' in o2 or 'rror' in o2.split('\n')[0]: return 'error'
        f = o.strip().split('\n')[0].strip()
        return f if f in ('sat', 'unsat') else 'error'
    v1, v2 = verdict(out['z3']), verdict(out['cvc5'])
    if v1 != v2 or v1 == 'error':
        return 'error', 'z3=%s cvc5=%s %s %s' % (v1, v2, out['z3'][:300], out['cvc5'][:300]), time.time() - t0
    return v1, out['z3'], time.time() - t0

def build_T(workdir):
    ll = os.path.join(workdir, 'pwd.ll')
    fl = [f for f in cfg_flags(Ob(name='x'))]
    r = sh(['clang-14', '-O1', '-S', '-emit-llvm', '-fno-discard-value-names'] * 0 + ['clang-14', '-O1', '-S', '-emit-llvm'] + fl + [os.path.join(REPO, SRC), '-o', ll], timeout=120)
    if r['rc'] != 0: return None, 'clang failed: ' + r['err'][-800:]
    import sys
    sys.path.insert(0, os.path.join(VERIF, 'tools'))
    import ir2smt
    try:
        enc = ir2smt.Enc(open(ll).read(), 'btokPwdTransition', membytes=4)
        smt = enc.encode()
    except ir2smt.Unsupported as ex:
        return None, 'NOT-ENCODABLE: ' + str(ex)
    return smt + PRELUDE, enc.n_instructions

def native_table(workdir):
    """gcc build of the real function; prints ret and new state octet for all 256 x 16 (state, event)"""
    c = os.path.join(workdir, 'tab.c')
    open(c, 'w').write('''#include <stdio.h>
#include <string.h>
#include <bee2/crypto/btok.h>
int main(int argc, char** argv){ unsigned s, e;
 if (argc > 1) { /* replay: start state, then events */
   btok_pwd_state st; unsigned char b; int i; unsigned v = 0; sscanf(argv[1], "%u", &v); b = (unsigned char)v; memset(&st, 0, sizeof st); memcpy(&st, &b, 1);
   for (i = 2; i < argc; ++i) { unsigned ev; int ok; unsigned char b0, b1; sscanf(argv[i], "%u", &ev); memcpy(&b0, &st, 1);
     ok = btokPwdTransition(&st, (btok_pwd_event)ev); memcpy(&b1, &st, 1); printf("%u %u %u %d\\n", b0, ev, b1, ok != 0); }
   return 0; }
 for (s = 0; s < 256; ++s) for (e = 0; e < 16; ++e) { btok_pwd_state st; unsigned char b = (unsigned char)s, pad[4]; int ok;
   memset(&st, 0xA5, sizeof st); memcpy(&st, &b, 1); ok = btokPwdTransition(&st, (btok_pwd_event)e); memcpy(pad, &st, 4);
   printf("%u %u %u %d %d\\n", s, e, pad[0], ok != 0, pad[1] == 0xA5 && pad[2] == 0xA5 && pad[3] == 0xA5); }
 return 0; }
''')
    exe = os.path.join(workdir, 'tab.exe')
    fl = cfg_flags(Ob(name='x'))
    r = sh(['gcc', '-O2', '-w'] + fl + [c, os.path.join(REPO, SRC), os.path.join(REPO, 'src/core/mem.c'), os.path.join(REPO, 'src/core/util.c'), '-o', exe], timeout=120)
    if r['rc'] != 0:
        # fall back: link whole library
        from vp_check import native_lib
        lib, err = native_lib(fl, False)
        if err: return None, err
        r = sh(['gcc', '-O2', '-w'] + fl + [c, lib, '-o', exe, '-lpthread'], timeout=120)
        if r['rc'] != 0: return None, 'native build failed ' + r['err'][-800:]
    return exe, None

def dec(s): return '(%s,%s)' % (PINN[s & 31] if (s & 31) < 16 else s & 31, AUTHN[s >> 5] if (s >> 5) < 4 else s >> 5)

def get_bv(model, name):
    m = re.search(r'\(\s*%s\s+(#x[0-9a-f]+|#b[01]+|\(_ bv(\d+) \d+\))\s*\)' % re.escape(name), model)
    if not m: return None
    if m.group(2): return int(m.group(2))
    t = m.group(1)
    return int(t[2:], 16) if t[1] == 'x' else int(t[2:], 2)

def reach(T, target, kmax=12):
    """solver search for an event sequence from a persistent start (any pin, auth_none) to target"""
    for k in range(0, kmax + 1):
        sc = [T, '(declare-const s0 (_ BitVec 8))', '(assert (and (valid s0) (= (authof s0) #x00)))']
        for i in range(k):
            sc.append('(declare-const e%d (_ BitVec 32))(assert (bvult e%d (_ bv9 32)))' % (i, i))
            sc.append('(declare-const s%d (_ BitVec 8))(assert (= s%d (Tn s%d e%d)))' % (i + 1, i + 1, i, i))
        sc.append('(assert (= s%d #x%02x))' % (k, target))
        sc.append('(check-sat)(get-value (s0 %s))' % ' '.join('e%d' % i for i in range(k)))
        v, model, _ = solvers('\n'.join(sc))
        if v == 'sat':
            return get_bv(model, 's0'), [get_bv(model, 'e%d' % i) for i in range(k)]
    return None, None

def run_native_seq(exe, s0, evs):
    r = sh([exe, str(s0)] + [str(e) for e in evs], timeout=30)
    steps = []
    for l in r['out'].splitlines():
        a = l.split()
        if len(a) == 4: steps.append(tuple(int(x) for x in a))
    return steps

def kstep_script(T, k, which):
    sc = [T, '(declare-const s0 (_ BitVec 8))', '(assert (and (valid s0) (= (authof s0) #x00)))']
    bad = []
    # ghost counters as SMT terms
    sc.append('(define-fun c0 () (_ BitVec 8) #x00)(define-fun d0 () (_ BitVec 8) #x00)(define-fun g0 () Bool false)')
    def let(name, sort, expr): sc.append('(declare-const %s %s)(assert (= %s %s))' % (name, sort, name, expr))
    for i in range(k):
        sc.append('(declare-const e%d (_ BitVec 32))(assert (bvult e%d (_ bv9 32)))' % (i, i))
        let('s%d' % (i + 1), '(_ BitVec 8)', '(Tn s%d e%d)' % (i, i)); let('ok%d' % i, 'Bool', '(Tok s%d e%d)' % (i, i))
        # c: accepted pin_bad since last accepted pin_ok / puk_ok / pin_activate
        let('c%d' % (i + 1), '(_ BitVec 8)', '(ite (and ok%d (= e%d %s)) (bvadd c%d #x01) (ite (and ok%d (or (= e%d %s) (= e%d %s) (= e%d %s))) #x00 c%d))' % (
            i, i, E('pin_bad'), i, i, i, E('pin_ok'), i, E('puk_ok'), i, E('pin_activate'), i))
        # d: accepted puk_bad while blocked since the pin was last not blocked / last puk_ok
        let('d%d' % (i + 1), '(_ BitVec 8)', '(ite (and ok%d (= e%d %s) (bvule (pinof s%d) #x0a)) (bvadd d%d #x01) (ite (or (bvugt (pinof s%d) #x0a) (= e%d %s)) #x00 d%d))' % (
            i, i, E('puk_bad'), i, i, i + 1, i, E('puk_ok'), i))
        # g: an accepted PIN attempt happened and no can_ok since
        let('g%d' % (i + 1), 'Bool', '(ite (and ok%d (or (= e%d %s) (= e%d %s))) true (ite (and ok%d (= e%d %s)) false g%d))' % (
            i, i, E('pin_ok'), i, E('pin_bad'), i, i, E('can_ok'), i))
        if which == 'K1':
            bad.append('(bvugt c%d #x03)' % (i + 1)); bad.append('(and (= c%d #x03) (bvugt (pinof s%d) #x0a))' % (i + 1, i + 1))
        if which == 'K2':
            # an accepted wrong PIN that blocks the PIN, preceded by another accepted PIN attempt with no can_ok between
            bad.append('(and g%d ok%d (= e%d %s) (bvugt (pinof s%d) #x0a) (bvule (pinof s%d) #x0a))' % (i, i, i, E('pin_bad'), i, i + 1))
        if which == 'K3':
            bad.append('(and (bvuge d%d #x0a) (not (= (pinof s%d) #x00)))' % (i + 1, i + 1))
            bad.append('(and (= (pinof s%d) #x00) (not (= (pinof s%d) #x00)))' % (i, i + 1))
    sc.append('(assert (or false %s))' % ' '.join(bad))
    sc.append('(check-sat)(get-value (s0 %s))' % ' '.join('e%d' % i for i in range(k)))
    return '\n'.join(sc)

def py_kstep(which, steps):
    """re-evaluate the k-step monitor on the native trace [(s, e, s2, ok)]"""
    c = d = 0; g = False
    for (s, e, s2, ok) in steps:
        p, p2 = s & 31, s2 & 31
        if which == 'K2' and g and ok and e == 1 and p > 10 and p2 <= 10: return False
        if ok and e == 1: c += 1
        elif ok and e in (0, 6, 3): c = 0
        if ok and e == 7 and p <= 10: d += 1
        elif p2 > 10 or e == 6: d = 0
        if ok and e in (0, 1): g = True
        elif ok and e == 4: g = False
        if which == 'K1' and (c > 3 or (c == 3 and p2 > 10)): return False
        if which == 'K3' and ((d >= 10 and p2 != 0) or (p == 0 and p2 != 0)): return False
    return True

def write_replay(ob, rule, s0, evs, desc):
    rp = dict(obligation=ob.name, module='C20', rule=rule, start=s0, events=evs, description=desc, tier='quick',
              readable='%s: %s' % (dec(s0), ' '.join(EVN[e] if e < 9 else str(e) for e in evs)))
    path = os.path.join(VERIF, 'replay', ob.name + '.json')
    os.makedirs(os.path.dirname(path), exist_ok=True)
    json.dump(rp, open(path, 'w'), indent=1)
    return path

def replay_eval(rule, steps):
    if rule in ONESTEP:
        s, e, s2, ok = steps[-1]
        return ONESTEP[rule][1](s & 31, s >> 5, e, s2 & 31, s2 >> 5, bool(ok))
    return py_kstep(rule, steps)

def run(ob, tier, workdir, replay=None):
    res = dict(queries=0, solver_s=0.0, witness=True)
    exe, err = native_table(workdir)
    if err:
        if replay: print(err); return 2
        return dict(verdict='BROKEN', detail=err)
    if replay:
        steps = run_native_seq(exe, replay['start'], replay['events'])
        holds = replay_eval(replay['rule'], steps)
        print('replay %s on the gcc-built btokPwdTransition: %s' % (replay['readable'], 'rule holds (NOT reproduced)' if holds else 'REPRODUCED'))
        for st in steps: print('  %s --%s--> %s accepted=%d' % (dec(st[0]), EVN[st[1]] if st[1] < 9 else st[1], dec(st[2]), st[3]))
        return 0 if holds else 1
    T, ninstr = build_T(workdir)
    if T is None:
        return dict(verdict='UNDECIDED' if ninstr.startswith('NOT-ENCODABLE') else 'BROKEN', detail=ninstr)
    rule = ob.rule
    def q(script):
        v, model, secs = solvers(script)
        res['queries'] += 2; res['solver_s'] += secs
        return v, model
    if rule == 'encoder_valid':
        tab = sh([exe], timeout=60)['out'].split('\n')
        rows = [tuple(int(x) for x in l.split()) for l in tab if l.strip()]
        if len(rows) != 4096: return dict(res, verdict='BROKEN', detail='native table has %d rows' % len(rows))
        dis = []
        for (s, e, s2, ok, padok) in rows:
            if not padok: return dict(res, verdict='VIOLATION', detail='native run changes padding octets', replay=None)
            dis.append('(and (= s #x%02x) (= e (_ bv%d 32)) (not (and (= (Tn s e) #x%02x) (= (Tok s e) %s))))' % (s, e, s2, 'true' if ok else 'false'))
        sc = T + '\n(declare-const s (_ BitVec 8))(declare-const e (_ BitVec 32))\n(assert (or %s))\n(check-sat)(get-value (s e))' % '\n'.join(dis)
        v, model = q(sc)
        # witness: the table constraint itself must be satisfiable when un-negated
        if v == 'unsat': return dict(res, verdict='HOLDS', detail='SMT function == gcc-built function on all 4096 (state octet, event<16) pairs; %d IR instructions encoded' % ninstr)
        if v == 'sat': return dict(res, verdict='BROKEN', detail='encoder disagrees with native function at s=%s e=%s' % (get_bv(model, 's'), get_bv(model, 'e')))
        return dict(res, verdict='BROKEN', detail='solver: ' + model[:300])
    if rule in ONESTEP:
        body = ONESTEP[rule][0]
        base = T + '\n(declare-const s (_ BitVec 8))(declare-const e (_ BitVec 32))\n(declare-const s2 (_ BitVec 8))(declare-const ok Bool)(assert (= s2 (Tn s e)))(assert (= ok (Tok s e)))\n(assert (inv s))\n'
        # vacuity witness: the premises are satisfiable
        vw, _ = q(base + '(check-sat)')
        if vw != 'sat': return dict(res, verdict='BROKEN', detail='witness query not sat: ' + vw)
        sc = base + '(assert (not %s))\n(check-sat)(get-value (s e s2))' % body
        cexs = []
        excl = ''
        while True:
            v, model = q(sc.replace('(check-sat)(get-value', excl + '(check-sat)(get-value'))
            if v == 'error': return dict(res, verdict='BROKEN', detail='solver: ' + model[:300])
            if v == 'unsat': break
            s, e = get_bv(model, 's'), get_bv(model, 'e')
            s0, evs = reach(T, s)
            res['queries'] += 2
            if s0 is not None:
                cexs.append((s, e, s0, evs)); break
            # pre-state not reachable from a persistent start within 12 events: spurious, exclude and go on
            excl += '(assert (not (= s #x%02x)))\n' % s
            res.setdefault('spurious', []).append(dec(s))
        if not cexs:
            d = 'all (state in 16x4, event in 2^32) pairs'
            if res.get('spurious'): d += '; pre-states excluded as unreachable within 12 events by solver search: %s' % res['spurious']
            return dict(res, verdict='HOLDS', detail=d)
        s, e, s0, evs = cexs[0]
        evs = evs + [e]
        steps = run_native_seq(exe, s0, evs)
        path = write_replay(ob, rule, s0, evs, ONESTEP[rule][2])
        rdbl = '%s: %s' % (dec(s0), ' '.join(EVN[x] if x < 9 else str(x) for x in evs))
        if steps and not replay_eval(rule, steps):
            return dict(res, verdict='VIOLATION', replay=path, detail='%s violated by history %s' % (rule, rdbl), cex_input=rdbl,
                        cex_desc=rule + ': ' + ONESTEP[rule][2], all_failed=[(rule, rule + ': ' + ONESTEP[rule][2] + ' | ' + rdbl)])
        return dict(res, verdict='UNCONFIRMED', replay=path, detail='%s solver cex %s did not reproduce natively' % (rule, rdbl))
    # k-step monitors
    k = ob.k
    vw, _ = q(kstep_script(T, k, rule).replace('(assert (or false', '(assert (or true'))
    if vw != 'sat': return dict(res, verdict='BROKEN', detail='witness query not sat')
    v, model = q(kstep_script(T, k, rule))
    if v == 'unsat': return dict(res, verdict='HOLDS', detail='all event sequences of length %d from every persistent start' % k)
    if v == 'error': return dict(res, verdict='BROKEN', detail='solver: ' + model[:300])
    s0 = get_bv(model, 's0'); evs = [get_bv(model, 'e%d' % i) for i in range(k)]
    steps = run_native_seq(exe, s0, evs)
    # shorten to the first violating prefix
    for n in range(1, len(steps) + 1):
        if not py_kstep(rule, steps[:n]): evs = evs[:n]; steps = steps[:n]; break
    path = write_replay(ob, rule, s0, evs, ob.bound)
    rdbl = '%s: %s' % (dec(s0), ' '.join(EVN[x] if x < 9 else str(x) for x in evs))
    if not py_kstep(rule, steps):
        return dict(res, verdict='VIOLATION', replay=path, detail='%s violated by history %s' % (rule, rdbl), cex_input=rdbl,
                    cex_desc=rule, all_failed=[(rule, rule + ' | ' + rdbl)])
    return dict(res, verdict='UNCONFIRMED', replay=path, detail='%s solver cex %s did not reproduce natively' % (rule, rdbl))

def obligations(tier):
    obs = [Ob(name='c20_encoder_valid', kind='custom', run=run, rule='encoder_valid', funcs=['btokPwdTransition'],
              bound='all 256 state octets x events 0..15: SMT encoding == gcc-built function (solver query over the table)')]
    for r, (_, _, txt) in ONESTEP.items():
        obs.append(Ob(name='c20_' + r, kind='custom', run=run, rule=r, funcs=['btokPwdTransition'],
                      bound='one transition from EVERY state satisfying the inductive invariant M0 (inductive step, histories of any length) x all 2^32 events: ' + txt))
    k = 14 if tier == 'quick' else 24
    for r, txt in (('K1', 'never more than 3 accepted wrong PINs without pin_ok/puk_ok/pin_activate in between, and the third leaves the PIN blocked'),
                   ('K2', 'a wrong PIN that blocks the PIN is never preceded by another accepted PIN attempt without a can_ok in between'),
                   ('K3', 'ten accepted wrong PUKs while blocked end in puk0, and puk0 is never left')):
        obs.append(Ob(name='c20_%s_k%d' % (r, k), kind='custom', run=run, rule=r, k=k, funcs=['btokPwdTransition'],
                      bound='all event sequences of length %d from every (pin state, auth_none): %s' % (k, txt)))
    return obs
