from vp_check import Ob

META = dict(
    not_decided=['thread interleavings of rng.c itself: CBMC 6.11 refuses multi-threaded programs that dereference a shared pointer ("pointer handling for concurrency is unsound") and rng.c keeps its state behind the shared pointer _state; decided instead: lock discipline + reference counting for every sequential API program (see c18_rng_lock_discipline)',
                 'goto-instrument --race-check aborts with an invariant violation on these binaries, so no instrumented data-race assertions; reads of _ctr/_state/_inited outside the mutex inside rng.c are not intercepted',
                 'more than 3 threads; waiters spinning longer than the unwinding bound; utilOnExit ordering at process exit; memory models weaker than PSO'],
    assumptions=['CBMC partial-order encoding of threads started with __CPROVER_ASYNC_n, __sync_* builtins atomic; harness join = full fence',
                 'pthread mutex assumed correct (replaced by a lock-depth monitor in the rng.c obligations)'],
)

def obligations(tier):
    obs = []
    MT = ['src/core/mt.c']
    thr = (2,) if tier == 'quick' else (2, 3)
    mms = ('sc', 'pso') if tier == 'quick' else ('sc', 'tso', 'pso')
    for n in thr:
        for mm in mms:
            for e, fn, b in (('h_once', ['mtCallOnce', 'mtAtomicCmpSwap'], 'initialiser runs exactly once, effects visible to every returning caller'),
                             ('h_atomic', ['mtAtomicIncr', 'mtAtomicDecr'], 'no lost update'),
                             ('h_atomic_ret', ['mtAtomicIncr'], 'increment returns the value it produced'),
                             ('h_cas', ['mtAtomicCmpSwap'], 'exactly one winner')):
                obs.append(Ob(name='c18_%s_t%d_%s' % (e[2:], n, mm), harness='harness/C18/once.c', entry=e, defs=['NTHR=%d' % n], srcs=MT,
                              unwind=n + 2, no_uwa=True, checks=[], cbmc_extra=['--mm', mm], timeout=900, replay='none',
                              noreplay_reason='a counterexample is a schedule (and, under tso/pso, a store order); it cannot be forced on this host',
                              funcs=fn, bound='%d threads, all interleavings, memory model %s, spin loop unwound n+2 times (longer waits outside the bound): %s' % (n, mm, b)))
    nc = 4 if tier == 'quick' else 6
    obs.append(Ob(name='c18_rng_lock_discipline_n%d' % nc, harness='harness/C18/rng.c', entry='h_rng', defs=['NCALL=%d' % nc], extra=['stubs/vp_libc.c'],
                  srcs=[('src/core/rng.c', {'defs': ['static='], 'remove': ['rngESRead']}), 'src/core/mem.c', ('src/core/util.c', {'remove': ['utilOnExit']}), 'src/core/str.c'],
                  unwind=40, timeout=900, replay='none', noreplay_reason='monitor harness with stubbed kernels',
                  funcs=['rngCreate', 'rngStepR', 'rngStepR2', 'rngRekey', 'rngIsValid', 'rngClose'],
                  stubs=['mtMtx* -> lock-depth monitor', 'brngCTR*/beltHash* -> monitors asserting the lock is held', 'rngESRead -> arbitrary outcome', 'blobCreate/blobClose -> malloc/free + monitor'],
                  bound='every sequence of %d API calls chosen by the solver from {Create, StepR, StepR2, Rekey, IsValid, Close} (calls other than Create only while a reference is held), every outcome of every entropy source' % nc))
    return obs
