from vp_check import Ob

META = dict(
    not_decided=['the standard curves (bign, bign96, GOST, DSTU): 256-bit symbolic field multiplication is out of reach',
                 'ecMulA/ecAddMulA/ecHasOrderA (wNAF loop with data-dependent bound), ecpSWU, ec2.c (binary curves): not built in this session',
                 'the library field implementations under the formulas (zm/gfp/Montgomery): arithmetic is C05'],
    assumptions=['field = harness-supplied qr_o with native arithmetic modulo a small prime and a constant inverse table',
                 'reference = textbook affine chord-and-tangent law in the harness'],
)
SRCS = ['src/math/ww.c', 'src/math/zz/zz_add.c', 'src/math/zz/zz_mod.c', 'src/math/zz/zz_etc.c', 'src/math/zz/zz_mul.c', 'src/math/zz/zz_gcd.c', 'src/math/zz/zz_red.c', 'src/math/zz/zz_pow.c',
        'src/math/ec.c', 'src/math/qr.c', 'src/math/zm.c', 'src/math/gfp.c', 'src/math/pri.c', 'src/core/mem.c', 'src/core/util.c', 'src/core/obj.c', 'src/core/word.c', 'src/core/u64.c', 'src/core/u32.c', 'src/core/u16.c', 'src/core/str.c']

def obligations(tier):
    obs = []
    primes = (7,) if tier == 'quick' else (5, 7, 11, 13)
    E = [('h_jac_neg', ['ecpNegJ']), ('h_jac_add', ['ecpAddJ']), ('h_jac_sub', ['ecpSubJ']), ('h_jac_dbl', ['ecpDblJ', 'ecpDblJA3']), ('h_jac_tpl', ['ecpTplJ', 'ecpTplJA3']),
         ('h_jac_alias', ['ecpAddJ (c==a, c==b)']), ('h_mixed_add', ['ecpAddAJ']), ('h_mixed_sub', ['ecpSubAJ']), ('h_mixed_dbl', ['ecpDblAJ']), ('h_mixed_conv', ['ecpFromAJ', 'ecpToAJ']),
         ('h_affine', ['ecpIsOnA', 'ecpAddAA', 'ecpSubAA', 'ecpNegA'])]
    for p in primes:
        for e, fn in E:
            obs.append(Ob(name='c06_%s_p%d' % (e[2:], p), harness='harness/C06/ecp.c', entry=e, defs=['P=%d' % p], srcs=SRCS, unwind=p + 2, timeout=900 if tier == 'quick' else 2400,
                          checks=['--bounds-check', '--pointer-check'], backend=['cadical', 'kissat'], funcs=fn,
                          bound='GF(%d): EVERY non-singular curve (A, B symbolic; A = -3 selects the A3 routines), every point/pair satisfying the (projective) curve equation incl. O, P=Q, P=-Q, order 2' % p))
    return obs
