from vp_check import Ob

META = dict(
    not_decided=[
        'beltPolyMul == GF(2^128) product for all operand pairs: no verdict in 300 s (cadical, kissat, z3) at B_PER_W = 64 and 32; thorough tier retries with 600 s; DWP/CHE are checked over an uninterpreted product',
        'monolithic miter beltBlockEncr2 == standard over the real S-box: no verdict in 600 s; replaced by the chain G (all 2^32) + wiring over uninterpreted G + exported function == macro (all decided)',
        'beltFMTCalcB: ~20 ms of solver time per value of mod, ~1300 s per count; quick covers count 160 on mod in [49152, 53247] and [61440, 65536], thorough the counts 1,2,3,8,64,150,159,160,161,299,300 on the whole mod domain; the other counts <= 300 are not run',
        'FMT StepE/StepD, beltStr2Bin/beltBin2Str radix conversion; WBL as a stand-alone mechanism vs the standard (only Unwrap(Wrap) via KWP); belt-hash, BDE, SDE, KRP, HMAC, PBKDF2 vs the standard (their chunking is C10)',
        'DWP/CHE/KWP outputs octet-for-octet against a model of the standard (decided: Unwrap inverts Wrap, Unwrap accepts exactly the outputs of Wrap; DWP keystream == belt-ctr)',
        'message lengths beyond the stated ranges; big-endian code paths (#if OCTET_ORDER == BIG_ENDIAN) and B_PER_S < 32 paths are not compiled on this host',
        'latent: beltCHEUnwrap allocates blobCreate(beltDWP_keep()) instead of beltCHE_keep(); sizeof(belt_dwp_st) == sizeof(belt_che_st) == 160 here, so no overrun in this configuration'],
    assumptions=[
        'the S-box table beltH() is the appendix data of STB 34.101.31 (additionally checked against its LFSR generator, c01_blk_Hgen)',
        'reference algorithms (block encryption/decryption 6.1, key expansion, ECB/CBC with stealing, CFB, CTR, MAC with phi1/phi2/psi) written from the standard in harness/C01/*.c',
        'modes/AEAD: block cipher = uninterpreted bijection (stubs/belt_block_uf.c); an equality proved for every bijection holds for belt-block',
        'memWipe replaced by a no-op and memIsDisjoint2 by an object-aware model in the mode/AEAD obligations (functional results do not depend on them); blob pages of 1 octet (BEE2_VERIF_BLOB_EXACT)',
        'beltFMTCalcB: zzDiv replaced by one 128-bit integer division (stubs/zzdiv_u128.c, contract of C05); thresholds floor(2^(64b/c)) computed with exact integer roots in props/C01.py'],
)

CORE = ['src/core/mem.c', 'src/core/util.c', 'src/core/u32.c', 'src/core/u64.c', 'src/core/u16.c', 'src/core/word.c', 'src/core/blob.c']
B = 'src/crypto/belt/'
BLOCK_FNS = ['beltBlockEncr', 'beltBlockEncr2', 'beltBlockEncr3', 'beltBlockDecr', 'beltBlockDecr2', 'beltBlockDecr3']
BLOCK = (B + 'belt_block.c', {'remove': BLOCK_FNS})
UF = ['stubs/belt_block_uf.c']
FS = ['--max-field-sensitivity-array-size', '512']


def block_obs(tier):
    q = tier == 'quick'
    obs = []
    H = 'harness/C01/block_k.c'
    def k(name, entry, bound, funcs, **kw):
        d = dict(name='c01_blk_' + name, harness=H, entry=entry, srcs=CORE, checks=[], unwind=130, timeout=300,
                 backend=['cadical', 'kissat'], bound=bound, funcs=funcs, replay='native')
        d.update(kw)
        return Ob(**d)
    obs.append(k('Hgen', 'h_Hgen', 'all 256 table positions', ['beltH']))
    obs.append(k('G', 'h_G', 'all 2^32 arguments, r = 5, 13, 21', ['G5', 'G13', 'G21 (macros of belt_block.c)']))
    obs.append(k('R_e', None, ('tact i = 1' if q else 'tacts i = 1..8') + ', all (a,b,c,d) and all theta (2^384 inputs each)', ['macro R', 'subkey_e'],
                 instances=[('h_Re_%d' % i, '%d, 0' % i) for i in ((1,) if q else range(1, 9))], timeout=400))
    obs.append(k('R_d', None, ('tact i = 8' if q else 'tacts i = 1..8') + ', all (a,b,c,d) and all theta (2^384 inputs each)', ['macro R', 'subkey_d'],
                 instances=[('h_Rd_%d' % i, '%d, 1' % i) for i in ((8,) if q else range(1, 9))], timeout=400))
    ufn = ['G5/G13/G21 uninterpreted (harness-local)']
    obs.append(k('wire_E', 'h_wireE', 'all blocks, all keys, all G functions', ['macro E', 'macro R', 'subkey_e'], stubs=ufn, replay='none', backend=['z3', 'cadical']))
    obs.append(k('wire_D', 'h_wireD', 'all blocks, all keys, all G functions', ['macro D', 'macro R', 'subkey_d'], stubs=ufn, replay='none', backend=['z3', 'cadical']))
    obs.append(k('inv_DE', 'h_invDE', 'all blocks, all keys, all G functions', ['macro E', 'macro D'], stubs=ufn, replay='none', backend=['z3', 'cadical']))
    obs.append(k('inv_ED', 'h_invED', 'all blocks, all keys, all G functions', ['macro E', 'macro D'], stubs=ufn, replay='none', backend=['z3', 'cadical']))
    for fn, nm in ((1, ''), (2, '2'), (3, '3')):
        obs.append(k('fn_Encr%s' % nm, 'h_fn_E', 'all blocks, all keys', ['beltBlockEncr' + nm], defs=['FN=%d' % fn], backend=['z3', 'cvc5']))
        obs.append(k('fn_Decr%s' % nm, 'h_fn_D', 'all blocks, all keys', ['beltBlockDecr' + nm], defs=['FN=%d' % fn], backend=['z3', 'cvc5']))
    obs.append(k('mono_Encr2', 'h_mono_E', 'all blocks, all keys (monolithic miter over the real S-box; no verdict expected)', ['beltBlockEncr2'], defs=['FN=2'], timeout=600, tiers=('thorough',)))
    obs.append(k('mono_DecrEncr2', 'h_mono_DE', 'all blocks, all keys (monolithic; no verdict expected)', ['beltBlockEncr2', 'beltBlockDecr2'], defs=['FN=2'], timeout=600, tiers=('thorough',)))
    return obs


def lcl_obs(tier):
    obs = []
    H = 'harness/C01/lcl.c'
    LCL = CORE + [B + 'belt_lcl.c', 'src/math/ww.c', 'src/math/pp/pp_mul.c', 'src/math/pp/pp_red.c', 'src/math/pp/pp_etc.c']
    def k(name, entry, word, bound, funcs, **kw):
        d = dict(name='c01_lcl_%s_w%d' % (name, word), harness=H, entry=entry, word=word, srcs=LCL, unwind=140, timeout=300,
                 backend=['cadical', 'kissat'], bound=bound + ', B_PER_W=%d, B_PER_S=64' % word, funcs=funcs)
        d.update(kw)
        return Ob(**d)
    for w in (64, 32):
        obs.append(k('addbits', 'h_addbits', w, 'all 2^128 blocks x all 2^64 counts', ['beltBlockAddBitSizeU32']))
        obs.append(k('addbits_half', 'h_addbits_half', w, 'all 2^64 half blocks x all 2^64 counts', ['beltHalfBlockAddBitSizeW']))
        obs.append(k('inc', 'h_inc', w, 'all 2^128 blocks', ['beltBlockIncU32']))
        obs.append(k('mulc', 'h_mulc', w, 'all 2^128 blocks', ['beltBlockMulC']))
        obs.append(k('macros', 'h_macros', w, 'all pairs of blocks', ['beltBlockXor', 'beltBlockXor2', 'beltBlockNeg', 'beltBlockCopy', 'beltBlockSetZero', 'beltHalfBlockIsZero']))
        obs.append(k('polymul', 'h_polymul', w, 'all pairs of field elements', ['beltPolyMul', 'ppMul', 'ppRedBelt'], timeout=600, backend=['cadical', 'kissat', 'z3'], tiers=('thorough',)))
    KX = 'harness/C01/keyexp.c'
    inst = []
    for ln in (16, 24, 32):
        for which in (1, 2):
            for nm, ok_, oo in ((('same', 32, 32), ('keylo4', 28, 32), ('keyhi4', 36, 32), ('disj', 0, 48)) if tier == 'quick' else (('same', 32, 32), ('keyhi', 40, 32), ('keylo', 24, 32), ('keylo4', 28, 32), ('keyhi4', 36, 32), ('disj', 0, 48), ('adj', 0, 32))):
                inst.append(('h_kx%d_%d_%s' % (which, ln, nm), '%d, %d, %d, %d' % (ln, which, ok_, oo)))
    obs.append(Ob(name='c01_keyexpand', harness=KX, instances=inst, srcs=CORE + [B + 'belt_block.c'], unwind=100, timeout=120, cbmc_extra=FS,
                  funcs=['beltKeyExpand', 'beltKeyExpand2'], bound='len 16/24/32 x beltKeyExpand/2 x {key_ == key, key 4 (thorough: and 8) octets above/below key_, disjoint (thorough: and adjacent)}: %d placements, all key values' % len(inst)))
    return obs


def iroot(n, c):
    """floor(n ** (1/c)) by exact integer bisection"""
    lo, hi = 0, 1
    while hi ** c <= n: hi *= 2
    while hi - lo > 1:
        mid = (lo + hi) // 2
        if mid ** c <= n: lo = mid
        else: hi = mid
    return lo

def fmt_thresholds(c):
    """T(c,b) = floor(2^(64b/c)), b = 1.. until T >= 65536 (mod <= 65536 is the documented domain)"""
    T = []; b = 1
    while True:
        t = iroot(1 << (64 * b), c)
        assert t ** c <= 1 << (64 * b) < (t + 1) ** c
        T.append(min(t, 0xFFFFFFFF)); b += 1
        if t >= 65536: return T

FMT_SPLIT = 4096

def fmt_obs(tier):
    q = tier == 'quick'
    H = 'harness/C01/fmt_b.c'
    ZZ = ['src/math/zz/zz_add.c', 'src/math/zz/zz_mul.c', 'src/math/zz/zz_mod.c', 'src/math/zz/zz_etc.c', 'src/math/ww.c']
    # measured: ~20 ms of solver time per value of mod (60-120 s per range of 4096 values, ~1300 s per count), so
    #   quick:    count 160 (the count of the exception documented
    #             in belt_fmt.c) on the two top ranges [49152, 53247] and [61440, 65536]
    #   thorough: the counts below over the complete mod domain
    counts = [160] if q else [1, 2, 3, 8, 64, 150, 159, 160, 161, 299, 300]
    obs = []
    for c in counts:
        T = fmt_thresholds(c)
        tab = '(const u32[]){%s}, %d' % (', '.join('%uu' % t for t in T), len(T))
        # case split of the mod domain into aligned ranges (complete cover of [2, 65536]); inside a range mod is symbolic
        step = FMT_SPLIT
        inst = [('h_b_%d_%05d' % (c, lo), '%d, %s, %d, %d' % (c, tab, max(lo, 2), min(lo + step - 1, 65536) + (lo + step == 65536))) for lo in range(0, 65536, step)]
        dom = 'every mod in [2, 65536] (case split into %d ranges, mod symbolic inside each)' % len(inst)
        if q and c == 2:
            inst = [('h_b_2_all', '%d, %s, 2, 65536' % (c, tab))]; dom = 'every mod in [2, 65536]'
        elif q:
            inst = [i for i in inst if i[0].endswith(('_49152', '_61440'))]; dom = 'every mod in [49152, 53247] and [61440, 65536]'
        obs.append(Ob(name='c01_fmt_calcB_c%03d' % c, harness=H, instances=inst,
                      srcs=CORE + [f if not f.endswith('zz_mul.c') else (f, {'remove': ['zzDiv']}) for f in ZZ], stub_files=['stubs/zzdiv_u128.c'],
                      stubs=['zzDiv -> one 128-bit division (stubs/zzdiv_u128.c)'], unwind=4, unwind_rules=[(r'^vp_body\.', len(T) + 2)], timeout=300,
                      backend=['cadical', 'kissat'], funcs=['beltFMTCalcB', 'zzMulW', 'zzAdd2', 'zzSub2', 'zzSubW2', 'wwSetBit'],
                      bound='count = %d (beltFMT count %d..%d), %s; %d exact thresholds' % (c, max(2, 2 * c - 1), 2 * c, dom, len(T))))
    return obs


MCORE = [f if not f.endswith('mem.c') else (f, {'remove': ['memWipe', 'memIsDisjoint2']}) for f in CORE]

def mode_obs(tier):
    q = tier == 'quick'
    H = 'harness/C01/modes.c'
    obs = []
    def m(name, mode, lens, srcs, funcs, klens=(32,), uf=UF, **kw):
        inst = [('h_%s_%d_k%d' % (name, n, kl), '%d, %d' % (n, kl)) for kl in klens for n in lens]
        d = dict(name='c01_mode_%s' % name, harness=H, defs=['MODE=%d' % mode, 'MAXN=%d' % max(max(lens), 1)], instances=inst,
                 srcs=MCORE + [B + 'belt_lcl.c', BLOCK] + [B + f for f in srcs], stub_files=uf + ['stubs/memwipe_nop.c', 'stubs/mem_disjoint_obj.c'], stubs=['belt_block_uf', 'memWipe -> no-op', 'memIsDisjoint2 object-aware'], blob_exact=True, unwind=max(lens) + 20,
                 unwind_rules=[(r'^belt\w+Step\w*\.\d+$', max(lens) // 16 + 2)], cbmc_extra=FS, timeout=300, mem_gb=6, replay='native', funcs=funcs,
                 bound='every length in %d..%d x key length %s: %d instances, message/ciphertext/key/IV symbolic' % (min(lens), max(lens), list(klens), len(inst)))
        d.update(kw)
        return Ob(**d)
    K3 = (16, 24, 32)
    hi = 49 if q else 81
    obs.append(m('ecb', 1, range(16, hi + 1), ['belt_ecb.c'], ['beltECBEncr', 'beltECBDecr', 'beltECBStart', 'beltECBStepE', 'beltECBStepD']))
    obs.append(m('ecb_k', 1, (37,) if q else (16, 37), ['belt_ecb.c'], ['beltECBEncr', 'beltECBDecr'], klens=(16, 24)))
    obs.append(m('cbc', 2, range(16, hi + 1), ['belt_cbc.c'], ['beltCBCEncr', 'beltCBCDecr', 'beltCBCStart', 'beltCBCStepE', 'beltCBCStepD']))
    obs.append(m('cbc_k', 2, (37,) if q else (16, 37), ['belt_cbc.c'], ['beltCBCEncr', 'beltCBCDecr'], klens=(16, 24)))
    lo = 33 if q else 65
    obs.append(m('cfb', 3, range(0, lo + 1), ['belt_cfb.c'], ['beltCFBEncr', 'beltCFBDecr', 'beltCFBStart', 'beltCFBStepE', 'beltCFBStepD']))
    obs.append(m('cfb_k', 3, (21,) if q else (0, 21), ['belt_cfb.c'], ['beltCFBEncr', 'beltCFBDecr'], klens=(16, 24)))
    obs.append(m('ctr', 4, range(0, lo + 1), ['belt_ctr.c'], ['beltCTR', 'beltCTRStart', 'beltCTRStepE']))
    obs.append(m('ctr_k', 4, (21,) if q else (0, 21), ['belt_ctr.c'], ['beltCTR'], klens=(16, 24)))
    obs.append(m('mac', 5, range(0, lo + 1), ['belt_mac.c'], ['beltMAC', 'beltMACStart', 'beltMACStepA', 'beltMACStepG', 'beltMACStepV']))
    obs.append(m('mac_k', 5, (21,) if q else (0, 16, 21), ['belt_mac.c'], ['beltMAC'], klens=(16, 24)))
    return obs


def aead_obs(tier):
    q = tier == 'quick'
    H = 'harness/C01/aead.c'
    obs = []
    LCLUF = (B + 'belt_lcl.c', {'remove': ['beltPolyMul']})
    def a(name, mode, shapes, srcs, funcs, lcl, stubf, stubs, **kw):
        inst = [('h_%s_%d_%d_k%d' % (name, n1, n2, kl), '%d, %d, %d' % (n1, n2, kl)) for (n1, n2, kl) in shapes]
        mx = max(max(s[0], s[1]) for s in shapes)
        d = dict(name='c01_aead_%s' % name, harness=H, defs=['MODE=%d' % mode, 'MAXN=%d' % mx], instances=inst,
                 srcs=MCORE + ['src/math/pp/pp_mul.c', 'src/math/ww.c', lcl, BLOCK] + [B + f for f in srcs], checks=[], stub_files=UF + ['stubs/memwipe_nop.c', 'stubs/mem_disjoint_obj.c'] + stubf, stubs=['belt_block_uf', 'memWipe -> no-op', 'memIsDisjoint2 object-aware'] + stubs, blob_exact=True,
                 unwind=mx + 40, unwind_rules=[(r'^belt\w+Step\w*\.\d+$', mx // 16 + 3)], cbmc_extra=FS, timeout=300, mem_gb=6, replay='native', funcs=funcs,
                 bound='(data length, associated data length / null header, key length) in %s, all data symbolic' % (sorted(shapes),))
        d.update(kw)
        return Ob(**d)
    sh = [(0, 0, 32), (21, 17, 24)] if q else \
         [(n1, n2, 32) for n1 in range(0, 36, 5) for n2 in (0, 7, 16, 33)] + [(16, 16, 16), (21, 7, 24)]
    pm = ['stubs/belt_polymul_uf.c']; pms = ['beltPolyMul uninterpreted']
    obs.append(a('dwp', 1, sh, ['belt_dwp.c', 'belt_ctr.c'], ['beltDWPWrap', 'beltDWPUnwrap', 'beltDWPStart', 'beltDWPStepI', 'beltDWPStepE', 'beltDWPStepA', 'beltDWPStepD', 'beltDWPStepG', 'beltDWPStepV'], LCLUF, pm, pms))
    obs.append(a('che', 2, sh, ['belt_che.c', 'belt_ctr.c', 'belt_dwp.c'], ['beltCHEWrap', 'beltCHEUnwrap', 'beltCHEStart', 'beltCHEStepI', 'beltCHEStepE', 'beltCHEStepA', 'beltCHEStepD', 'beltCHEStepG', 'beltCHEStepV'], LCLUF, pm, pms))
    ksh = [(16, 0, 32), (24, 1, 24)] if q else [(n, h, 32) for n in range(16, 65) for h in (0, 1)] + [(17, 0, 16), (24, 1, 24)]
    obs.append(a('kwp', 3, ksh, ['belt_kwp.c', 'belt_wbl.c'], ['beltKWPWrap', 'beltKWPUnwrap', 'beltWBLStart', 'beltWBLStepE', 'beltWBLStepD2'], B + 'belt_lcl.c', [], [],
                 unwind_rules=[(r'^beltWBL\w+\.\d+$', 12)]))
    return obs


def obligations(tier):
    obs = []
    obs += aead_obs(tier)
    obs += mode_obs(tier)
    obs += fmt_obs(tier)
    obs += block_obs(tier)
    obs += lcl_obs(tier)
    return [o for o in obs if tier in o.tiers]
