from vp_check import Ob

META = dict(not_decided=[], assumptions=[])

CORE = ['src/core/mem.c', 'src/core/util.c', 'src/core/u32.c', 'src/core/u64.c', 'src/core/u16.c', 'src/core/word.c', 'src/core/blob.c']
B = 'src/crypto/belt/'
BLOCK_FNS = ['beltBlockEncr', 'beltBlockEncr2', 'beltBlockEncr3', 'beltBlockDecr', 'beltBlockDecr2', 'beltBlockDecr3']
BLOCK = (B + 'belt_block.c', {'remove': BLOCK_FNS})
UF = ['stubs/belt_block_uf.c']
FS = ['--max-field-sensitivity-array-size', '512']


def block_obs(tier):
    q = tier == 'quick'
    obs = []
    H = 'harness/C01/block_k.c'
    def k(name, entry, bound, funcs, **kw):
        d = dict(name='c01_blk_' + name, harness=H, entry=entry, srcs=CORE, checks=[], unwind=130, timeout=300,
                 backend=['cadical', 'kissat'], bound=bound, funcs=funcs, replay='native')
        d.update(kw)
        return Ob(**d)
    obs.append(k('Hgen', 'h_Hgen', 'all 256 table positions', ['beltH']))
    obs.append(k('G', 'h_G', 'all 2^32 arguments, r = 5, 13, 21', ['G5', 'G13', 'G21 (macros of belt_block.c)']))
    obs.append(k('R_e', None, 'tacts i = 1..8, all (a,b,c,d) and all theta (2^384 inputs each)', ['macro R', 'subkey_e'],
                 instances=[('h_Re_%d' % i, '%d, 0' % i) for i in range(1, 9)], timeout=400))
    obs.append(k('R_d', None, 'tacts i = 1..8, all (a,b,c,d) and all theta (2^384 inputs each)', ['macro R', 'subkey_d'],
                 instances=[('h_Rd_%d' % i, '%d, 1' % i) for i in range(1, 9)], timeout=400))
    ufn = ['G5/G13/G21 uninterpreted (harness-local)']
    obs.append(k('wire_E', 'h_wireE', 'all blocks, all keys, all G functions', ['macro E', 'macro R', 'subkey_e'], stubs=ufn, replay='none', backend=['z3', 'cadical']))
    obs.append(k('wire_D', 'h_wireD', 'all blocks, all keys, all G functions', ['macro D', 'macro R', 'subkey_d'], stubs=ufn, replay='none', backend=['z3', 'cadical']))
    obs.append(k('inv_DE', 'h_invDE', 'all blocks, all keys, all G functions', ['macro E', 'macro D'], stubs=ufn, replay='none', backend=['z3', 'cadical']))
    obs.append(k('inv_ED', 'h_invED', 'all blocks, all keys, all G functions', ['macro E', 'macro D'], stubs=ufn, replay='none', backend=['z3', 'cadical']))
    for fn, nm in ((1, ''), (2, '2'), (3, '3')):
        obs.append(k('fn_Encr%s' % nm, 'h_fn_E', 'all blocks, all keys', ['beltBlockEncr' + nm], defs=['FN=%d' % fn], backend=['z3', 'cvc5']))
        obs.append(k('fn_Decr%s' % nm, 'h_fn_D', 'all blocks, all keys', ['beltBlockDecr' + nm], defs=['FN=%d' % fn], backend=['z3', 'cvc5']))
    return obs


def lcl_obs(tier):
    obs = []
    H = 'harness/C01/lcl.c'
    LCL = CORE + [B + 'belt_lcl.c', 'src/math/ww.c', 'src/math/pp/pp_mul.c', 'src/math/pp/pp_red.c', 'src/math/pp/pp_etc.c']
    def k(name, entry, word, bound, funcs, **kw):
        d = dict(name='c01_lcl_%s_w%d' % (name, word), harness=H, entry=entry, word=word, srcs=LCL, unwind=140, timeout=300,
                 backend=['cadical', 'kissat'], bound=bound + ', B_PER_W=%d, B_PER_S=64' % word, funcs=funcs)
        d.update(kw)
        return Ob(**d)
    for w in (64, 32):
        obs.append(k('addbits', 'h_addbits', w, 'all 2^128 blocks x all 2^64 counts', ['beltBlockAddBitSizeU32']))
        obs.append(k('addbits_half', 'h_addbits_half', w, 'all 2^64 half blocks x all 2^64 counts', ['beltHalfBlockAddBitSizeW']))
        obs.append(k('inc', 'h_inc', w, 'all 2^128 blocks', ['beltBlockIncU32']))
        obs.append(k('mulc', 'h_mulc', w, 'all 2^128 blocks', ['beltBlockMulC']))
        obs.append(k('macros', 'h_macros', w, 'all pairs of blocks', ['beltBlockXor', 'beltBlockXor2', 'beltBlockNeg', 'beltBlockCopy', 'beltBlockSetZero', 'beltHalfBlockIsZero']))
        obs.append(k('polymul', 'h_polymul', w, 'all pairs of field elements', ['beltPolyMul', 'ppMul', 'ppRedBelt'], timeout=300, backend=['cadical', 'kissat', 'z3']))
    KX = 'harness/C01/keyexp.c'
    inst = []
    for ln in (16, 24, 32):
        for which in (1, 2):
            for nm, ok_, oo in (('same', 32, 32), ('keyhi', 40, 32), ('keylo', 24, 32), ('keylo4', 28, 32), ('keyhi4', 36, 32), ('disj', 0, 48), ('adj', 0, 32)):
                inst.append(('h_kx%d_%d_%s' % (which, ln, nm), '%d, %d, %d, %d' % (ln, which, ok_, oo)))
    obs.append(Ob(name='c01_keyexpand', harness=KX, instances=inst, srcs=CORE + [B + 'belt_block.c'], unwind=100, timeout=120, cbmc_extra=FS,
                  funcs=['beltKeyExpand', 'beltKeyExpand2'], bound='len 16/24/32 x {key_ == key, key 8/4 octets above/below key_, disjoint, adjacent}: %d placements, all key values' % len(inst)))
    return obs


def iroot(n, c):
    """floor(n ** (1/c)) by exact integer bisection"""
    lo, hi = 0, 1
    while hi ** c <= n: hi *= 2
    while hi - lo > 1:
        mid = (lo + hi) // 2
        if mid ** c <= n: lo = mid
        else: hi = mid
    return lo

def fmt_thresholds(c):
    """T(c,b) = floor(2^(64b/c)), b = 1.. until T >= 65536 (mod <= 65536 is the documented domain)"""
    T = []; b = 1
    while True:
        t = iroot(1 << (64 * b), c)
        assert t ** c <= 1 << (64 * b) < (t + 1) ** c
        T.append(min(t, 0xFFFFFFFF)); b += 1
        if t >= 65536: return T

def fmt_obs(tier):
    q = tier == 'quick'
    H = 'harness/C01/fmt_b.c'
    ZZ = ['src/math/zz/zz_add.c', 'src/math/zz/zz_mul.c', 'src/math/zz/zz_mod.c', 'src/math/zz/zz_etc.c', 'src/math/ww.c']
    counts = [1, 2, 3, 8, 64, 150, 159, 160, 161, 299, 300] if q else list(range(1, 301))
    obs = []
    for c in counts:
        T = fmt_thresholds(c)
        args = '%d, (const u32[]){%s}, %d, 2, 65536' % (c, ', '.join('%uu' % t for t in T), len(T))
        obs.append(Ob(name='c01_fmt_calcB_c%03d' % c, harness=H, instances=[('h_b_%d' % c, args)], srcs=CORE + ZZ, unwind=20, timeout=300,
                      backend=['cadical', 'kissat'], funcs=['beltFMTCalcB', 'zzMulW', 'zzDiv', 'zzAdd2', 'zzSub2'],
                      bound='count = %d (beltFMT count %d..%d), every mod in [2, 65536]; %d exact thresholds' % (c, max(2, 2 * c - 1), 2 * c, len(T))))
    return obs


def obligations(tier):
    obs = []
    obs += fmt_obs(tier)
    obs += block_obs(tier)
    obs += lcl_obs(tier)
    return [o for o in obs if tier in o.tiers]
