from vp_check import Ob

META = dict(not_decided=[], assumptions=[])

CORE = ['src/core/mem.c', 'src/core/util.c', 'src/core/u32.c', 'src/core/u64.c', 'src/core/u16.c', 'src/core/word.c', 'src/core/blob.c']
B = 'src/crypto/belt/'
BLOCK_FNS = ['beltBlockEncr', 'beltBlockEncr2', 'beltBlockEncr3', 'beltBlockDecr', 'beltBlockDecr2', 'beltBlockDecr3']
BLOCK = (B + 'belt_block.c', {'remove': BLOCK_FNS})
UF = ['stubs/belt_block_uf.c']
FS = ['--max-field-sensitivity-array-size', '512']


def block_obs(tier):
    q = tier == 'quick'
    obs = []
    H = 'harness/C01/block_k.c'
    def k(name, entry, bound, funcs, **kw):
        d = dict(name='c01_blk_' + name, harness=H, entry=entry, srcs=CORE, checks=[], unwind=130, timeout=300,
                 backend=['cadical', 'kissat'], bound=bound, funcs=funcs, replay='native')
        d.update(kw)
        return Ob(**d)
    obs.append(k('Hgen', 'h_Hgen', 'all 256 table positions', ['beltH']))
    obs.append(k('G', 'h_G', 'all 2^32 arguments, r = 5, 13, 21', ['G5', 'G13', 'G21 (macros of belt_block.c)']))
    obs.append(k('R_e', None, 'tacts i = 1..8, all (a,b,c,d) and all theta (2^384 inputs each)', ['macro R', 'subkey_e'],
                 instances=[('h_Re_%d' % i, '%d, 0' % i) for i in range(1, 9)], timeout=400))
    obs.append(k('R_d', None, 'tacts i = 1..8, all (a,b,c,d) and all theta (2^384 inputs each)', ['macro R', 'subkey_d'],
                 instances=[('h_Rd_%d' % i, '%d, 1' % i) for i in range(1, 9)], timeout=400))
    ufn = ['G5/G13/G21 uninterpreted (harness-local)']
    obs.append(k('wire_E', 'h_wireE', 'all blocks, all keys, all G functions', ['macro E', 'macro R', 'subkey_e'], stubs=ufn, replay='none'))
    obs.append(k('wire_D', 'h_wireD', 'all blocks, all keys, all G functions', ['macro D', 'macro R', 'subkey_d'], stubs=ufn, replay='none'))
    obs.append(k('inv_DE', 'h_invDE', 'all blocks, all keys, all G functions', ['macro E', 'macro D'], stubs=ufn, replay='none'))
    obs.append(k('inv_ED', 'h_invED', 'all blocks, all keys, all G functions', ['macro E', 'macro D'], stubs=ufn, replay='none'))
    for fn, nm in ((1, ''), (2, '2'), (3, '3')):
        obs.append(k('fn_Encr%s' % nm, 'h_fn_E', 'all blocks, all keys', ['beltBlockEncr' + nm], defs=['FN=%d' % fn]))
        obs.append(k('fn_Decr%s' % nm, 'h_fn_D', 'all blocks, all keys', ['beltBlockDecr' + nm], defs=['FN=%d' % fn]))
    return obs


def obligations(tier):
    obs = []
    obs += block_obs(tier)
    return [o for o in obs if tier in o.tiers]
