from vp_check import Ob

META = dict(
    not_decided=['optimisation levels -O0..-O3 (CBMC sees the source, not the compiler output)', 'SSE2/AVX2/AVX-512/NEON bash-f units (goto-cc cannot parse the intrinsics)',
                 'assertion-enabled vs release build: needs models of the ASSERT helper predicates; covered only through C07 family C if built',
                 'regular vs fast edition: decided under C14/C05 (SAFE == FAST) for the routines that have both',
                 'multiplication/division kernels across word sizes (64-bit products stall the solver)'],
    assumptions=['little-endian host: word arrays and octet strings share the memory image'],
)
def ren(names, extra=()):
    return ['%s=%s__B' % (n, n) for n in names] + list(extra)

def obligations(tier):
    obs = []
    core = ['src/core/mem.c', 'src/core/util.c', 'src/core/u32.c', 'src/core/u64.c', 'src/core/word.c', 'src/core/u16.c']
    L = ['beltBlockAddBitSizeU32', 'beltHalfBlockAddBitSizeW', 'beltBlockMulC', 'beltPolyMul', 'beltPolyMul_deep']
    obs.append(Ob(name='c19_belt_lcl_w64_w32', harness='harness/C19/cfg.c', entry='h_lcl',
                  srcs=core + ['src/crypto/belt/belt_lcl.c', ('src/crypto/belt/belt_lcl.c', {'defs': ren(L, ['BEE2_VERIF_WORD=32'])}), 'src/math/pp/pp_mul.c', 'src/math/pp/pp_red.c', 'src/math/ww.c'],
                  unwind=20, timeout=600, backend=['cadical', 'kissat'], funcs=L[:3], bound='all 128-bit blocks x all size_t counts; B_PER_W = 64 vs 32 builds of belt_lcl.c'))
    Z = ['zzAdd', 'zzSub', 'zzNeg', 'zzAdd2', 'zzSub2', 'zzAdd3', 'zzAddW', 'zzAddW2', 'zzSubW', 'zzSubW2', 'zzIsSumEq', 'zzIsSumEq_fast', 'zzIsSumWEq', 'zzIsSumWEq_fast', 'zzIsEven', 'zzIsOdd']
    import re
    def names_of(path):
        txt = open('/repo/' + path, encoding='utf-8').read()
        return sorted(set(re.findall(r'^(?:[a-z_]+\s+)+(?:SAFE|FAST)?\(?((?:ww|zz)\w+)\)?\s*\(', txt, re.M)))
    W = names_of('src/math/ww.c'); ZA = names_of('src/math/zz/zz_add.c')
    Wf = W + [w + '_fast' for w in W]; ZAf = ZA + [z + '_fast' for z in ZA]
    obs.append(Ob(name='c19_zz_ww_w64_w32', harness='harness/C19/cfg.c', entry='h_zz',
                  srcs=core + ['src/math/zz/zz_add.c', 'src/math/ww.c',
                               ('src/math/zz/zz_add.c', {'defs': ren(ZAf + Wf, ['BEE2_VERIF_WORD=32'])}), ('src/math/ww.c', {'defs': ren(Wf + ZAf, ['BEE2_VERIF_WORD=32'])})],
                  unwind=20, timeout=600, backend=['cadical', 'kissat'], funcs=['zzAdd', 'zzSub', 'zzNeg', 'wwCmp', 'wwBitSize'],
                  bound='all pairs of 16-octet operands; 2 x 64-bit words vs 4 x 32-bit words'))
    # SAFE_FAST edition: SAFE(f) = f_safe, FAST(f) = f; plain (single-edition) functions get their #ifdef SAFE_FAST bodies
    FN = ['zzAdd', 'zzAdd2', 'zzAdd3', 'zzAddW', 'zzAddW2', 'zzSub', 'zzSub2', 'zzSubW', 'zzSubW2', 'zzNeg', 'zzIsEven', 'zzIsOdd', 'zzIsSumEq', 'zzIsSumEq_safe', 'zzIsSumWEq', 'zzIsSumWEq_safe']
    obs.append(Ob(name='c19_zz_add_safe_fast', harness='harness/C19/cfg.c', entry='h_safefast',
                  srcs=core + ['src/math/zz/zz_add.c', 'src/math/ww.c', ('src/math/zz/zz_add.c', {'defs': ['%s=%s__F' % (f, f) for f in FN] + ['SAFE_FAST']})],
                  unwind=20, timeout=600, backend=['cadical', 'kissat'], funcs=['zzAdd', 'zzSub', 'zzAddW', 'zzSubW', 'zzAddW2', 'zzSubW2', 'zzAdd2', 'zzSub2'],
                  bound='n symbolic 0..2 words of 64 bits, all values: default build vs -DSAFE_FAST build of zz_add.c'))
    obs.append(Ob(name='c19_bashF_64_32', harness='harness/C19/cfg.c', entry='h_bashf',
                  srcs=core + ['src/crypto/bash/bash_f.c', ('src/crypto/bash/bash_f.c', {'defs': ren(['bashF', 'bashF_deep'], ['BASH_32'])})],
                  unwind=200, timeout=900, checks=[], backend=['kissat', 'cadical'], funcs=['bashF (bash_f64.c)', 'bashF (bash_f32.c)'], bound='all 2^1536 states'))
    return obs
