"""C07: no call reads or writes outside its buffers or its declared state / stack size.

CBMC's own bounds / pointer checks (default checks of the driver) are the oracle; lengths are concrete
(instances), all data symbolic, every buffer / state / stack a heap object of EXACTLY the documented size.
Families: A state layouts (_keep), B stack depths (_deep, props/C07_deep.py), C the same with the library's
ASSERTs live (NDEBUG off), D high-level functions with exact-size blobs, K the real kernels."""
from vp_check import Ob

META = dict(
    not_decided=[
        'uninitialised reads: CBMC gives fresh heap memory an arbitrary value, it does not flag a read of it (ASan replay does not either)',
        'lengths other than the listed concrete instances; fragment sequences other than the one each harness runs',
        'belt-FMT states for count > 40 in the quick tier (thorough: up to count = 600 for mod = 65536 / 10)',
        'btok, bign, bake, bels, stb99, pfok, dstu, g12s, bpki, ec/ecp/gf2/gfp/qr/zm object layers: not encoded here',
        'c07_keep_dbg_beltFMT (ASSERT-live belt-FMT): timed out at 240 s in the quick probe, thorough tier only; botpOCRA bundles and c07_blob_aead/brng/botp: thorough tier only, probes ended in timeout / 6 GB memory cap (UNDECIDED)',
        'family B: see props/C07_deep.py NOT_DECIDED (gcd/div/sqrt/irred families do not finish; defects there were confirmed by native ASan runs, not by a solver query)',
        'W16 profile for the crypto bundles (16-bit words are not a shipped configuration; family B uses it for the zz/pp layer)',
    ],
    assumptions=[
        'family A/C/D: belt block cipher = uninterpreted bijection (stubs/belt_block_uf.c) and bash-f = uninterpreted function (stubs/bashf_uf.c); the stubs read and write exactly block[16] / block[192] through the pointer they are given, so a wrong block pointer is still an out-of-object access; the real kernels are run once with exact-size buffers (c07_kernel_*)',
        'family C: memIsDisjoint/memIsSameOrDisjoint/memIsDisjoint2 replaced by object-aware models (different objects are disjoint, same object: the library\'s offset comparison), utilAssert replaced by a failing property (harness/C07/dbg_stubs.c)',
        'c07_blob_kwp / c07_blob_fmt: beltKWPWrap and beltFMTEncr/Decr call memIsDisjoint2 on caller buffers in release builds (relational comparison of pointers into different objects, C-level UB that CBMC reports as "same object violation"); these two groups link the object-aware memIsDisjoint* models of harness/C07/dbg_stubs.c',
        'alignment of caller buffers is not modelled (bee2 casts octet buffers to word*; malloc results are aligned)',
    ],
)

CORE = ['src/core/mem.c', 'src/core/util.c', 'src/core/u16.c', 'src/core/u32.c', 'src/core/u64.c', 'src/core/word.c']
B = 'src/crypto/belt/'
BLOCK_FUNCS = ['beltBlockEncr', 'beltBlockEncr2', 'beltBlockEncr3', 'beltBlockDecr', 'beltBlockDecr2', 'beltBlockDecr3']
BLOCK = (B + 'belt_block.c', {'remove': BLOCK_FUNCS})
LCL = B + 'belt_lcl.c'
PP = ['src/math/pp/pp_mul.c', 'src/math/pp/pp_red.c', 'src/math/ww.c']
ZZ = ['src/math/zz/zz_add.c', 'src/math/zz/zz_mul.c', 'src/math/zz/zz_gcd.c', 'src/math/zz/zz_etc.c', 'src/math/ww.c']
HASHS = [B + 'belt_hash.c', B + 'belt_compr.c']
HMACS = [B + 'belt_hmac.c', B + 'belt_compr.c', B + 'belt_hash.c']
BASH = ['src/crypto/bash/bash_hash.c', 'src/crypto/bash/bash_prg.c']
BOTP = ['src/crypto/botp.c', 'src/core/dec.c', 'src/core/str.c', 'src/core/tm.c']
UF = 'harness/C07/belt_block_havoc.c'
UFB = 'harness/C07/bashf_havoc.c'
FS = ['--max-field-sensitivity-array-size', '512']
DBG = 'harness/C07/dbg_stubs.c'
LIBC = 'harness/C07/libc_words.c'
DBG_REMOVE = {'src/core/mem.c': ['memIsDisjoint', 'memIsSameOrDisjoint', 'memIsDisjoint2'], 'src/core/util.c': ['utilAssert']}

# (bundle, -D, sources, stubs, functions, [(klen, n, m)] quick, [(klen, n, m)] more for thorough, unwind)
def bundles():
    K = (16, 24, 32)
    L = []
    def add(name, d, srcs, funcs, quick, more=(), stub=(UF,), unwind=40, defs=(), rules=(), fs=512, extra=(), libc=False, heavy=False):
        L.append(dict(fs=fs, extra=list(extra), name=name, libc=libc, heavy=heavy, d=d, srcs=srcs, funcs=funcs, quick=list(quick), more=list(more), stub=list(stub) + ([LIBC] if libc else []), unwind=unwind, defs=list(defs), rules=list(rules) + ([(r'^mem(cpy|move|set)\.\d+$', 700)] if libc else [])))
    blk = [LCL, BLOCK]
    add('beltECB', 'B_ECB', blk + [B + 'belt_ecb.c'], ['beltECB_keep', 'beltECBStart', 'beltECBStepE', 'beltECBStepD'],
        [(16, 16, 17), (32, 32, 47)], [(24, 48, 31), (32, 16, 16)])
    add('beltCBC', 'B_CBC', blk + [B + 'belt_cbc.c'], ['beltCBC_keep', 'beltCBCStart', 'beltCBCStepE', 'beltCBCStepD'],
        [(16, 16, 17), (32, 32, 47)], [(24, 48, 31), (32, 16, 16)])
    add('beltCFB', 'B_CFB', blk + [B + 'belt_cfb.c'], ['beltCFB_keep', 'beltCFBStart', 'beltCFBStepE', 'beltCFBStepD'],
        [(16, 0, 1), (32, 15, 18), (24, 33, 16)], [(32, 16, 0), (32, 1, 47)])
    add('beltCTR', 'B_CTR', blk + [B + 'belt_ctr.c'], ['beltCTR_keep', 'beltCTRStart', 'beltCTRStepE'],
        [(16, 0, 1), (32, 15, 18), (24, 33, 16)], [(32, 16, 0), (32, 1, 47)])
    add('beltBDE', 'B_BDE', blk + [B + 'belt_bde.c'], ['beltBDE_keep', 'beltBDEStart', 'beltBDEStepE', 'beltBDEStepD'],
        [(16, 16, 32), (32, 0, 48)], [(24, 32, 16)])
    add('beltSDE', 'B_SDE', blk + [B + 'belt_sde.c', B + 'belt_wbl.c'], ['beltSDE_keep', 'beltSDEStart', 'beltSDEStepE', 'beltSDEStepD'],
        [(16, 32, 48)], [(32, 64, 80), (24, 48, 32)], unwind=48)
    add('beltWBL', 'B_WBL', blk + [B + 'belt_wbl.c'], ['beltWBL_keep', 'beltWBLStart', 'beltWBLStepE', 'beltWBLStepD', 'beltWBLStepD2', 'beltWBLStepR'],
        [(16, 32, 32), (32, 33, 47), (24, 48, 33)], [(32, 64, 48), (32, 80, 64), (16, 47, 49), (32, 65, 40)], unwind=48)
    add('beltMAC', 'B_MAC', blk + [B + 'belt_mac.c'], ['beltMAC_keep', 'beltMACStart', 'beltMACStepA', 'beltMACStepG', 'beltMACStepG2', 'beltMACStepV', 'beltMACStepV2'],
        [(16, 0, 8), (32, 15, 17), (24, 33, 16)], [(32, 16, 0), (32, 1, 31)])
    add('beltHash', 'B_HASH', blk + HASHS, ['beltHash_keep', 'beltHashStart', 'beltHashStepH', 'beltHashStepG', 'beltHashStepG2', 'beltHashStepV', 'beltHashStepV2'],
        [(32, 0, 1), (7, 31, 34)], [(0, 32, 32), (16, 65, 0), (32, 33, 31)])
    add('beltHMAC', 'B_HMAC', blk + HMACS, ['beltHMAC_keep', 'beltHMACStart', 'beltHMACStepA', 'beltHMACStepG', 'beltHMACStepG2', 'beltHMACStepV', 'beltHMACStepV2'],
        [(32, 0, 33), (33, 31, 1)], [(0, 32, 32), (5, 65, 0), (64, 1, 1)], unwind=72)
    add('beltKRP', 'B_KRP', blk + [B + 'belt_krp.c', B + 'belt_compr.c'], ['beltKRP_keep', 'beltKRPStart', 'beltKRPStepG'],
        [(16, 16, 0), (32, 24, 0), (32, 32, 0)], [(24, 16, 0), (24, 24, 0), (32, 16, 0)])
    for nm in ('DWP', 'CHE'):
        add('belt' + nm, 'B_' + nm, blk + [B + 'belt_%s.c' % nm.lower(), B + 'belt_ctr.c'] + PP,
            ['belt%s_keep' % nm] + ['belt%s%s' % (nm, f) for f in ('Start', 'StepE', 'StepI', 'StepA', 'StepG', 'StepV', 'StepD')] + ['beltPolyMul', 'ppMul', 'ppRedBelt'],
            [(16, 0, 1), (32, 17, 15), (24, 16, 33)], [(32, 1, 16), (32, 33, 0), (32, 15, 17)], unwind=72, extra=['--slice-formula'])
    # FMT: vp_body(klen, mod, count). b = blocks per half: 1 -> block cipher, 2 -> belt-32block, >= 3 -> WBL
    add('beltFMT', 'B_FMT', blk + [B + 'belt_fmt.c', B + 'belt_wbl.c'] + ZZ, ['beltFMT_keep', 'beltFMTStart', 'beltFMTStepE', 'beltFMTStepD', 'beltFMTCalcB', 'beltStr2Bin', 'beltBin2StrAdd', 'beltBin2StrSub', 'belt32BlockEncr'],
        [(16, 10, 2), (32, 10, 9), (32, 65536, 9), (24, 2, 40), (32, 256, 17), (32, 65536, 24)],
        [(32, 65535, 33), (32, 49667, 5), (32, 65536, 33), (32, 3, 31), (32, 10, 40)], unwind=130)
    add('bashHash', 'B_BASHHASH', ['src/crypto/bash/bash_hash.c'], ['bashHash_keep', 'bashHashStart', 'bashHashStepH', 'bashHashStepG', 'bashHashStepV'],
        [(128, 0, 1), (256, 64, 65), (16, 95, 90)], [(192, 96, 0), (256, 63, 1), (32, 1, 96)], stub=(UFB,), unwind=200)
    # bashPrg: (l, n, m) x (d, ann, key) from defs
    for (d, ann, key) in ((1, 4, 32), (2, 60, 60), (2, 0, 0)):
        add('bashPrg_d%d_a%d_k%d' % (d, ann, key), 'B_BASHPRG', ['src/crypto/bash/bash_prg.c'],
            ['bashPrg_keep', 'bashPrgStart', 'bashPrgRestart', 'bashPrgAbsorbStart', 'bashPrgAbsorbStep', 'bashPrgAbsorb', 'bashPrgSqueezeStart', 'bashPrgSqueezeStep', 'bashPrgSqueeze',
             'bashPrgEncrStart', 'bashPrgEncrStep', 'bashPrgEncr', 'bashPrgDecrStart', 'bashPrgDecrStep', 'bashPrgDecr', 'bashPrgRatchet'],
            [(256, 0, 1), (256, 64, 65)] if key != 32 else [(128, 1, 0), (256, 90, 96)],
            [(128, 96, 70), (192, 95, 1)] if key != 60 else [(256, 63, 64)], stub=(UFB,), unwind=200, defs=['PRG_D=%d' % d, 'PRG_ANN=%d' % ann, 'PRG_KEY=%d' % key])
    add('brngCTR', 'B_BRNGCTR', blk + ['src/crypto/brng.c'] + HASHS + [B + 'belt_hmac.c'], ['brngCTR_keep', 'brngCTRStart', 'brngCTRStepR', 'brngCTRStepG'],
        [(1, 0, 1), (0, 32, 5)], [(1, 33, 31), (1, 5, 60), (1, 64, 0)], unwind=72, fs=1024, libc=True)
    for ivl in (16, 65):
        add('brngHMAC_iv%d' % ivl, 'B_BRNGHMAC', blk + ['src/crypto/brng.c'] + HASHS + [B + 'belt_hmac.c'], ['brngHMAC_keep', 'brngHMACStart', 'brngHMACStepR'],
            [(32, 1, 32)] if ivl == 16 else [(16, 33, 0)], [(0, 31, 33), (40, 0, 64)], unwind=72, defs=['IV_LEN=%d' % ivl], fs=1024, libc=True)
    add('botpHOTP', 'B_HOTP', blk + BOTP + HMACS, ['botpHOTP_keep', 'botpHOTPStart', 'botpHOTPStepS', 'botpHOTPStepR', 'botpHOTPStepV', 'botpHOTPStepG', 'botpDT', 'botpCtrNext', 'decFromU32'],
        [(32, 6, 0)], [(16, 8, 0), (33, 7, 0)], unwind=72, fs=1024, libc=True, defs=['VP_STATE_BYTES'], heavy=True)
    add('botpTOTP', 'B_TOTP', blk + BOTP + HMACS, ['botpTOTP_keep', 'botpTOTPStart', 'botpTOTPStepR', 'botpTOTPStepV'],
        [(32, 6, 0)], [(16, 8, 0), (33, 7, 0)], unwind=72, fs=1024, libc=True, defs=['VP_STATE_BYTES'], heavy=True)
    OCRA = [('full', '"OCRA-1:HOTP-HBELT-6:C-QN08-PHBELT-S016-T1M"', 6, 32, 16, [(32, 4, 0), (32, 16, 0)]),
            ('min', '"OCRA-1:HOTP-HBELT-9:QA64"', 9, 0, 0, [(16, 128, 0)]),
            ('adjacent', '"OCRA-1:HOTP-HBELT-6:C-QN08-PHBELT-S016-T1M"', 6, 32, 16, [(32, 8, 0)]),
            ('sha512', '"OCRA-1:HOTP-HBELT-4:QH10-PSHA512-S064"', 4, 64, 64, [(32, 20, 0)])]
    for (nm, suite, dg, p, s, inst) in OCRA:
        add('botpOCRA_' + nm, 'B_OCRA', blk + BOTP + HMACS, ['botpOCRA_keep', 'botpOCRAStart', 'botpOCRAStepS', 'botpOCRAStepR', 'botpOCRAStepV', 'botpOCRAStepG'],
            [], inst, unwind=140, fs=2048, libc=True, heavy=True,
            defs=['OCRA_SUITE=' + suite, 'OCRA_DIGIT=%d' % dg, 'OCRA_P=%d' % p, 'OCRA_S=%d' % s] + (['OCRA_ADJACENT'] if nm == 'adjacent' else []))
    return L

Q32 = {'beltWBL', 'beltHash', 'beltHMAC', 'beltDWP', 'beltCHE', 'beltFMT', 'bashPrg_d1_a4_k32', 'brngCTR'}
QDBG = {'beltECB', 'beltMAC', 'beltWBL', 'beltHash', 'beltHMAC', 'beltKRP', 'beltDWP', 'beltCHE', 'beltSDE', 'bashHash', 'bashPrg_d2_a60_k60', 'brngCTR', 'brngHMAC_iv65'}

def keep_obs(tier):
    obs = []
    for b in bundles():
        inst = b['quick'] + (b['more'] if tier != 'quick' else [])
        if not inst: continue
        for word in (64, 32):
            for dbg in (False, True):
                # quick tier (6-minute budget at --jobs 4): every bundle at W64 with NDEBUG on (two instances); W32 and the
                # ASSERT-live profile repeat the first instance for the bundles in Q32 / QDBG; everything else
                # (W32 x ASSERT-live, the heavy botp bundles, remaining bundles and instances) is in the thorough tier
                if tier == 'quick':
                    if word == 32 and dbg: continue
                    if b['heavy'] and (word == 32 or dbg): continue
                    if word == 32 and b['name'] not in Q32: continue
                    if dbg and b['name'] not in QDBG: continue
                srcs = []
                for s in CORE + b['srcs']:
                    if dbg and isinstance(s, str) and s in DBG_REMOVE: s = (s, {'remove': DBG_REMOVE[s]})
                    srcs.append(s)
                # the debug profile repeats the instances with the library's ASSERTs live
                ii = inst if tier != 'quick' else inst[:2] if (word == 64 and not dbg) else inst[:1]
                obs.append(Ob(
                    name='c07_keep%s_%s_w%d' % ('_dbg' if dbg else '', b['name'], word), harness='harness/C07/keep.c',
                    defs=[b['d']] + b['defs'] + (['VP_DBG'] if dbg else []), word=word, ndebug=not dbg,
                    instances=[('k_%d_%d_%d' % t, '%d, %d, %d' % t) for t in ii],
                    srcs=srcs, stub_files=b['stub'] + ([DBG] if dbg else []), unwind=b['unwind'], unwind_rules=b['rules'],
                    timeout=240, mem_gb=6, cbmc_extra=['--max-field-sensitivity-array-size', str(b['fs'])] + b['extra'], replay='asan', funcs=b['funcs'],
                    stubs=[s.split('/')[-1][:-2] for s in b['stub']] + (['dbg_stubs (utilAssert -> property, object-aware memIsDisjoint*)'] if dbg else []),
                    bound='state = heap object of exactly %s octets, every caller buffer an exact-size heap object; word=%d, NDEBUG %s; concrete (klen|level, n, m) in %s, all data/key/iv octets symbolic; loops <= %d'
                          % (b['funcs'][0] + '()', word, 'off (library ASSERTs live)' if dbg else 'on', ii, b['unwind'])))
    return obs

def kernel_obs(tier):
    obs = []
    def k(name, entry, srcs, funcs, word, bound, unwind=40, timeout=240, checks=None):
        obs.append(Ob(name='c07_kernel_%s_w%d' % (name, word), harness='harness/C07/kernel.c', entry=entry, word=word, srcs=[f for f in CORE if not (word == 16 and f.endswith('u64.c'))] + srcs,
                      unwind=unwind, timeout=timeout, mem_gb=6, cbmc_extra=FS + ['--slice-formula'], replay='asan', funcs=funcs, bound=bound, checks=checks,
                      tiers=('quick', 'thorough') if (name, word) in QUICK_K else ('thorough',)))
    QUICK_K = {('beltBlock', 64), ('beltKeyExpand', 64), ('beltKeyExpand', 32), ('beltCompr', 64), ('bashF', 64)}
    blk = [LCL, B + 'belt_block.c']
    NOSO = ['--bounds-check', '--pointer-check', '--undefined-shift-check', '--div-by-zero-check']
    for w in (64, 32):
        k('beltBlock', 'h_block', blk, BLOCK_FUNCS, w, 'REAL cipher: one call of each of the six block entry points, block/key/word operands exact-size heap objects, all data symbolic')
        k('beltKeyExpand', 'h_keyexpand', blk, ['beltKeyExpand', 'beltKeyExpand2', 'beltH'], w, 'key lengths 16, 24, 32; key = heap object of exactly len octets, output exactly 32 octets')
        k('beltCompr', 'h_compr', blk + [B + 'belt_compr.c'], ['beltCompr', 'beltCompr2', 'beltCompr_deep'], w, 'REAL cipher; h[8], X[8], s[4] exact, stack = exactly beltCompr_deep() octets')
        k('beltWBL', 'h_wbl', blk + [B + 'belt_wbl.c'], ['beltWBLStart', 'beltWBLStepE', 'beltWBLStepD2'], w, 'REAL cipher, 33-octet wide block (6 rounds each), state exactly beltWBL_keep()', unwind=48)
    for w in (64, 32, 16):
        k('bashF', 'h_bashF', ['src/crypto/bash/bash_f.c'], ['bashF', 'bashF_deep'], w, 'REAL bash-f (bash_f64.c at W64/W32, bash_f32.c at W16), block = exactly 192 octets, stack = exactly bashF_deep() octets',
          unwind=30, checks=NOSO if w == 16 else None)
    return obs

# (group, -D, sources, stubs, functions, instances quick, more)
def hl_obs(tier):
    obs = []
    blk = [LCL, BLOCK]
    def h(name, d, srcs, funcs, quick, more=(), stub=(UF,), unwind=72, words=(64, 32), fs=512, libc=False, extra=(), disj=False):
        inst = list(quick) + (list(more) if tier != 'quick' else [])
        if not inst: return
        for w in words:
            if tier == 'quick' and (w == 32 or name in ('fmt', 'bash')): inst = inst[:1]
            if tier == 'quick' and w == 32 and name not in ('auth', 'kwp'): continue
            ss = []
            for s in CORE + ['src/core/blob.c'] + srcs:
                if s == 'src/core/mem.c': s = (s, {'remove': ['memAlloc'] + (DBG_REMOVE[s] if disj else [])})
                if s == 'src/core/util.c' and disj: s = (s, {'remove': DBG_REMOVE[s]})
                ss.append(s)
            obs.append(Ob(name='c07_blob_%s_w%d' % (name, w), harness='harness/C07/hl.c', defs=[d], word=w, blob_exact=True,
                          instances=[('k_%d_%d_%d' % t, '%d, %d, %d' % t) for t in inst], srcs=ss, stub_files=list(stub) + ['harness/C07/alloc_typed.c', LIBC] + ([DBG] if disj else []),
                          unwind=unwind, unwind_rules=[(r'^mem(Wipe|chr)\.\d+$', 2200), (r'^mem(cpy|move|set)\.\d+$', 700)], timeout=240, mem_gb=6, cbmc_extra=['--max-field-sensitivity-array-size', str(fs)] + list(extra), replay='asan', funcs=funcs,
                          stubs=[s.split('/')[-1][:-2] for s in stub] + ['alloc_typed (memAlloc: same size, word-typed object)'],
                          bound='BEE2_VERIF_BLOB_EXACT: every blob is a heap object of exactly size + sizeof(size_t) octets; caller buffers exact; word=%d; concrete (klen, n, m) in %s; data symbolic' % (w, inst)))
    h('blockmodes', 'H_BLOCKMODES', blk + [B + f for f in ('belt_ecb.c', 'belt_cbc.c', 'belt_cfb.c', 'belt_ctr.c')],
      ['beltECBEncr', 'beltECBDecr', 'beltCBCEncr', 'beltCBCDecr', 'beltCFBEncr', 'beltCFBDecr', 'beltCTR'], [(32, 17, 5)], [(16, 16, 0), (24, 47, 33)])
    h('disk', 'H_DISK', blk + [B + f for f in ('belt_bde.c', 'belt_sde.c', 'belt_wbl.c')], ['beltBDEEncr', 'beltBDEDecr', 'beltSDEEncr', 'beltSDEDecr'], [(32, 16, 32)], [(16, 48, 48)])
    h('auth', 'H_AUTH', blk + [B + f for f in ('belt_mac.c', 'belt_hash.c', 'belt_hmac.c', 'belt_krp.c', 'belt_compr.c', 'belt_pbkdf.c')],
      ['beltMAC', 'beltHash', 'beltHMAC', 'beltKRP', 'beltPBKDF2'], [(32, 17, 33)], [(16, 0, 0), (24, 32, 5)])
    h('aead', 'H_AEAD', blk + [B + f for f in ('belt_dwp.c', 'belt_che.c', 'belt_ctr.c')] + PP, ['beltDWPWrap', 'beltDWPUnwrap', 'beltCHEWrap', 'beltCHEUnwrap'], [], [(32, 17, 5), (16, 0, 16), (24, 32, 0)], extra=['--slice-formula'])
    h('kwp', 'H_KWP', blk + [B + 'belt_kwp.c', B + 'belt_wbl.c'], ['beltKWPWrap', 'beltKWPUnwrap'], [(32, 16, 1), (16, 17, 0)], [(24, 32, 1), (32, 48, 0)], unwind=48, disj=True)
    h('fmt', 'H_FMT', blk + [B + 'belt_fmt.c', B + 'belt_wbl.c'] + ZZ, ['beltFMTEncr', 'beltFMTDecr', 'beltFMT_keep'], [(32, 10, 9), (16, 65536, 24)], [(32, 256, 17), (24, 2, 40), (32, 65536, 9)], unwind=130, disj=True)
    h('bash', 'H_BASH', ['src/crypto/bash/bash_hash.c'], ['bashHash'], [(128, 1, 0), (256, 129, 0)], [(192, 96, 0), (16, 0, 0)], stub=(UFB,), unwind=200)
    h('brng', 'H_BRNG', blk + ['src/crypto/brng.c'] + HASHS + [B + 'belt_hmac.c'], ['brngCTRRand', 'brngHMACRand'], [], [(32, 5, 16), (32, 33, 16), (16, 1, 65), (0, 64, 0)], fs=1024, libc=True)
    h('botp', 'H_BOTP', blk + BOTP + HMACS, ['botpHOTPRand', 'botpHOTPVerify', 'botpTOTPRand', 'botpTOTPVerify', 'botpOCRARand'], [], [(32, 6, 0), (16, 8, 0)], unwind=140, fs=2048, libc=True)
    return obs

def _decoders(tier):
    # DESIGN.md C07: decoders are shared with C08 (every read inside the input, every write inside the exact-size output)
    from props import C08
    out = []
    for o in C08.obligations(tier):
        if o.name.startswith('c08_der_') or o.name.startswith('c08_apdu') or o.name.startswith('c08_b64') or o.name.startswith('c08_hex'):
            o = Ob(**dict(o)); o['name'] = o.name.replace('c08_', 'c07_dec_'); out.append(o)
    return out

def obligations(tier):
    obs = keep_obs(tier) + kernel_obs(tier) + hl_obs(tier)
    try:
        from props.C07_deep import deep_obligations
        obs += deep_obligations(tier)
    except ImportError:
        pass
    _r = [o for o in obs if tier in o.tiers]
    return list(_r) + _decoders(tier)
