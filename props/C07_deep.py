"""C07, family B: stack depths (_deep companions) of the math layer (zz, pp).
deep_obligations(tier) -> [Ob]; NOT_DECIDED -> [str]. Imported by props/C07.py."""
from vp_check import Ob

CORE = ['src/math/ww.c', 'src/core/mem.c', 'src/core/util.c', 'src/core/word.c', 'src/core/u16.c', 'src/core/u32.c', 'src/core/u64.c']
ZZ = ['src/math/zz/zz_add.c', 'src/math/zz/zz_mul.c', 'src/math/zz/zz_mod.c', 'src/math/zz/zz_red.c', 'src/math/zz/zz_etc.c', 'src/math/zz/zz_gcd.c'] + CORE
PP = ['src/math/pp/pp_mul.c', 'src/math/pp/pp_gcd.c', 'src/math/pp/pp_mod.c', 'src/math/pp/pp_red.c', 'src/math/pp/pp_etc.c'] + CORE
# u16*u16 is evaluated in signed int by C promotion throughout the 16-bit test configuration (see props/C05.py)
NOSO = ['--bounds-check', '--pointer-check', '--undefined-shift-check', '--div-by-zero-check']

NOT_DECIDED = [
    'family B (stack depths): decided in the quick tier only for zzMul/zzSqr (n, m <= 4), zzDiv/zzMod with a one-word divisor or n < m, zzMulMod/zzMulWMod/zzSqrMod/zzRed/zzRedMont at n = 1, zzRedCrand/zzRedCrandMont at n = 2, 3 (all 16-bit words) and ppMulW/ppAddMulW/ppMul/ppSqr (n, m <= 4; 16-, 32- and 64-bit words)',
    'zzDiv/zzMod with m >= 2 (hence zzMulMod/zzSqrMod/zzRed/zzRedBarrStart at n >= 2, zzLCM, zzJacobi, zzSqrt at n >= 3): the bound of the trial-quotient correction loop is a number-theoretic fact about a 32/16-bit division; 30-150 s probes did not finish, the obligations sit in the thorough tier with 900 s and were not run to completion',
    'binary gcd family (zzGCD, zzIsCoprime, zzLCM, zzExGCD, zzDivMod, zzInvMod, zzAlmostInvMod, zzJacobi, ppGCD, ppExGCD, ppDivMod, ppInvMod, ppIsIrred): trip count ~ B_PER_W * (n + m) with symbolic word counts after normalisation; zzGCD(1, 1) at 16 bits is a 3.0 M variable / 11 M clause formula and did not finish in 300 s; thorough tier only, not decided',
    'zzSqrt (Newton iteration), FAST zzRedBarr (while a >= mod), ppDiv/ppMod/ppRed/ppMulMod/ppSqrMod (symbolic m after normalisation: 2 M variables per instance, 40 s probes did not finish), ppMinPoly, ppMinPolyMod, zzPowerModW: thorough tier only, not decided',
    'zzPowerMod (zm/qr vtable layer) is not encoded',
    '64/32-bit words for everything except the ppMul family',
    'defects found by reading the code while writing the harnesses and reproduced by concrete native ASan runs (NOT by a solver query that finished): ppIsIrred_deep, zzSqrt_deep, ppExGCD d extent for n < m, ppDiv q extent when b[m - 1] == 1, ppMinPoly a extent; see the report of agent-c07',
]

def _srcs(lst, word):
    return [f for f in lst if not (word == 16 and isinstance(f, str) and f.endswith('u64.c'))]

def _ob(layer, group, word, pairs, funcs, what, defs=(), unwind=12, rules=(), tiers=('thorough',), timeout=300, tag='', extra=(), srcs=None, one=False):
    """one obligation = function group x word size; one cbmc query per (n, m) instance"""
    inst = [('h_%d_%d' % p, '%d, %d' % p) for p in pairs]
    ob = Ob(name='c07_deep_%s_%s%s_w%d' % (layer, group.lower(), tag, word), harness='harness/C07/deep_%s.c' % layer,
            defs=['F_' + group] + list(defs), word=word, instances=inst,
            srcs=_srcs(srcs or (ZZ if layer == 'zz' else PP), word), unwind=unwind, unwind_rules=list(rules),
            timeout=timeout, mem_gb=6, replay='asan', funcs=list(funcs), tiers=tiers,
            cbmc_extra=['--slice-formula'] + list(extra),
            bound='%s; (n, m) in %s words of %d bits, all operand values admitted by the header; stack object of exactly f_deep(n, m) octets, operands exact-size heap objects; loops unwound %d%s' % (
                what, ' '.join('(%d,%d)' % p for p in pairs) if not one else ' '.join('%d' % p[0] for p in pairs), word, unwind,
                (', ' + ', '.join('%s: %d' % r for r in rules)) if rules else ''))
    if word == 16: ob['checks'] = NOSO
    return ob

SQ = [(1, 1), (2, 2), (3, 3), (4, 4)]
ASYM = [(2, 1), (3, 1), (3, 2), (4, 2), (1, 2), (2, 3)]
GE = [(2, 1), (3, 1), (3, 2), (4, 2)]

def deep_obligations(tier):
    q = tier == 'quick'
    obs = []
    T = ('thorough',); Q = ('quick', 'thorough')
    # ---------------------------------------------------------------- zz
    obs.append(_ob('zz', 'MUL', 16, SQ + ASYM, ['zzMul', 'zzSqr'], 'zzMul(n, m), zzSqr(n)', tiers=Q, timeout=60))
    M1 = [(1, 1), (2, 1), (3, 1), (4, 1), (1, 2), (2, 3)]
    obs.append(_ob('zz', 'DIV', 16, M1, ['zzDiv', 'zzMod', 'zzDivW', 'zzModW'], 'zzDiv (n >= m), zzMod: one-word divisor and n < m paths', tiers=Q, unwind=8, rules=[(r'^zz(Div|Mod)\.0$', 4)], tag='_m1', timeout=60))
    obs.append(_ob('zz', 'DIV', 16, [(2, 2), (3, 2), (4, 2), (3, 3), (4, 4)], ['zzDiv', 'zzMod'], 'zzDiv (n >= m), zzMod: Knuth division, m >= 2', tiers=T, unwind=8, rules=[(r'^zz(Div|Mod)\.0$', 4)], tag='_m2', timeout=900))
    def K(n, m, w=16): return w * (n + m) + 2       # binary gcd: every pass removes >= 1 bit from |u| + |v|
    for (n, m) in [(1, 1), (2, 1), (1, 2)]:
        t = '_%d_%d' % (n, m); k = K(n, m)
        obs.append(_ob('zz', 'GCD', 16, [(n, m)], ['zzGCD'], 'zzGCD', tiers=T, unwind=5, rules=[(r'^zzGCD\.0$', k)], tag=t))
        obs.append(_ob('zz', 'COPRIME', 16, [(n, m)], ['zzIsCoprime'], 'zzIsCoprime', tiers=T, unwind=5, rules=[(r'^zzGCD\.0$', k)], tag=t))
        obs.append(_ob('zz', 'EXGCD', 16, [(n, m)], ['zzExGCD'], 'zzExGCD', tiers=T, unwind=5, rules=[(r'^zzExGCD\.2$', k), (r'^zzExGCD\.[01]$', 16 * max(n, m) + 1)], tag=t))
        obs.append(_ob('zz', 'JACOBI', 16, [(n, m)], ['zzJacobi'], 'zzJacobi', tiers=T, unwind=6, rules=[(r'^zzJacobi\.0$', k), (r'^zz(Div|Mod)\.0$', 4)], tag=t))
        obs.append(_ob('zz', 'LCM', 16, [(n, m)], ['zzLCM'], 'zzLCM', tiers=T, unwind=6, rules=[(r'^zzGCD\.0$', k), (r'^zz(Div|Mod)\.0$', 4)], tag=t))
    obs.append(_ob('zz', 'SQRT', 16, [(1, 0), (2, 0), (3, 0)], ['zzSqrt'], 'zzSqrt(n)', tiers=T, one=True, unwind=8, rules=[(r'^zzSqrt\.0$', 20), (r'^zz(Div|Mod)\.0$', 4)]))
    obs.append(_ob('zz', 'MODS', 16, [(1, 0)], ['zzMulMod', 'zzMulWMod', 'zzSqrMod'], 'zzMulMod, zzMulWMod, zzSqrMod', tiers=Q, one=True, unwind=10, rules=[(r'^zz(Div|Mod)\.0$', 4)], tag='_n1', timeout=60))
    obs.append(_ob('zz', 'MODS', 16, [(2, 0), (3, 0)], ['zzMulMod', 'zzMulWMod', 'zzSqrMod'], 'zzMulMod, zzMulWMod, zzSqrMod', tiers=T, one=True, unwind=10, rules=[(r'^zz(Div|Mod)\.0$', 4)], tag='_n23', timeout=900))
    obs.append(_ob('zz', 'INVMOD', 16, [(1, 0)], ['zzInvMod', 'zzDivMod'], 'zzInvMod, zzDivMod', tiers=T, one=True, unwind=5, rules=[(r'^zzDivMod\.2$', K(1, 1)), (r'^zzDivMod\.[01]$', 17)]))
    obs.append(_ob('zz', 'ALMINV', 16, [(1, 0)], ['zzAlmostInvMod'], 'zzAlmostInvMod', tiers=T, one=True, unwind=5, rules=[(r'^zzAlmostInvMod\.0$', 34)]))
    obs.append(_ob('zz', 'RED', 16, [(1, 0)], ['zzRed', 'zzRedMont'], 'zzRed, zzRedMont (SAFE, FAST)', tiers=Q, one=True, unwind=10, rules=[(r'^zz(Div|Mod)\.0$', 4)], tag='_n1', timeout=60))
    obs.append(_ob('zz', 'RED', 16, [(2, 0), (3, 0)], ['zzRed', 'zzRedMont'], 'zzRed, zzRedMont (SAFE, FAST)', tiers=T, one=True, unwind=10, rules=[(r'^zz(Div|Mod)\.0$', 4)], tag='_n23', timeout=900))
    obs.append(_ob('zz', 'REDCRAND', 16, [(2, 0), (3, 0)], ['zzRedCrand', 'zzRedCrandMont'], 'zzRedCrand, zzRedCrandMont (SAFE, FAST)', tiers=Q, one=True, timeout=60))
    obs.append(_ob('zz', 'REDBARR', 16, [(1, 0), (2, 0)], ['zzRedBarrStart', 'zzRedBarr'], 'zzRedBarrStart, zzRedBarr (SAFE, FAST)', tiers=T, one=True, unwind=10, rules=[(r'^zz(Div|Mod)\.0$', 4), (r'^zzRedBarr_fast\.0$', 4)]))
    obs.append(_ob('zz', 'POWW', 16, [(0, 0)], ['zzPowerModW'], 'zzPowerModW', tiers=T, one=True, unwind=20, srcs=ZZ + [('src/math/zz/zz_pow.c', {'remove': ['zzPowerMod', 'zzPowerMod_deep']})]))
    # ---------------------------------------------------------------- pp
    for w in (16, 32, 64):
        obs.append(_ob('pp', 'MULW', w, [(1, 0), (2, 0), (3, 0), (4, 0)], ['ppMulW', 'ppAddMulW'], 'ppMulW, ppAddMulW', tiers=Q, one=True, timeout=60))
        obs.append(_ob('pp', 'MUL', w, SQ + ASYM, ['ppMul', 'ppSqr'], 'ppMul(n, m), ppSqr(n)', tiers=Q, timeout=60))
    obs.append(_ob('pp', 'MUL', 16, [(5, 5), (6, 6), (7, 7), (8, 8), (9, 9), (10, 10), (11, 11), (5, 3), (10, 9), (9, 10)], ['ppMul'], 'ppMul(n, m): every base case ppMul1..ppMul9 and the Karatsuba recursion', tiers=T, tag='_big', unwind=14, timeout=300))
    for w in (16, 64):
        obs.append(_ob('pp', 'DIV', w, SQ + GE, ['ppDiv'], 'ppDiv', tiers=T))
        obs.append(_ob('pp', 'MOD', w, SQ + ASYM, ['ppMod'], 'ppMod', tiers=T))
        obs.append(_ob('pp', 'MODS', w, [(1, 0), (2, 0), (3, 0)], ['ppMulMod', 'ppSqrMod'], 'ppMulMod, ppSqrMod', tiers=T, one=True))
        obs.append(_ob('pp', 'RED', w, [(1, 0), (2, 0), (3, 0)], ['ppRed'], 'ppRed', tiers=T, one=True))
        obs.append(_ob('pp', 'IRRED', w, [(1, 0), (2, 0)], ['ppIsIrred'], 'ppIsIrred', tiers=T, one=True, unwind=6, rules=[(r'^ppIsIrred\.0$', w + 1), (r'^ppGCD\.0$', 2 * w * 2 + 2)]))
    for (n, m) in [(1, 1), (2, 1), (1, 2)]:
        t = '_%d_%d' % (n, m); k = K(n, m)
        obs.append(_ob('pp', 'GCD', 16, [(n, m)], ['ppGCD'], 'ppGCD', tiers=T, unwind=5, rules=[(r'^ppGCD\.0$', k)], tag=t))
        obs.append(_ob('pp', 'EXGCD', 16, [(n, m)], ['ppExGCD'], 'ppExGCD', tiers=T, unwind=5, rules=[(r'^ppExGCD\.2$', k), (r'^ppExGCD\.[01]$', 16 * max(n, m) + 1)], tag=t))
    obs.append(_ob('pp', 'INVMOD', 16, [(1, 0)], ['ppInvMod', 'ppDivMod'], 'ppInvMod, ppDivMod', tiers=T, one=True, unwind=5, rules=[(r'^ppDivMod\.2$', K(1, 1)), (r'^ppDivMod\.[01]$', 17)]))
    obs.append(_ob('pp', 'MINPOLY', 16, [(0, 9), (0, 16)], ['ppMinPoly'], 'ppMinPoly', tiers=T, unwind=8, rules=[(r'^ppMinPoly\.1$', 20)]))
    return [o for o in obs if tier in o.tiers]
