from vp_check import Ob

META = dict(
    not_decided=['B_PER_W == 16 obligations run without --signed-overflow-check: u16*u16 is evaluated in signed int by C promotion throughout the 16-bit test configuration (e.g. _MUL_LO in zz_red.c); the 16-bit configuration is not shipped', 'operand lengths beyond the stated word counts', '64x64-bit products inside zzMul at n >= 2 (W64)', 'pp/gf2 layer: see evidence',
                 'zm/gfp/qr object layer (vtables): not executed symbolically'],
    assumptions=['reference values computed in unsigned __int128 by the harness (val(), %, *)'],
)
ZZ = ['src/math/zz/zz_add.c', 'src/math/zz/zz_mul.c', 'src/math/zz/zz_mod.c', 'src/math/zz/zz_red.c', 'src/math/zz/zz_etc.c', 'src/math/zz/zz_gcd.c',
      'src/math/ww.c', 'src/core/mem.c', 'src/core/util.c', 'src/core/word.c', 'src/core/u16.c', 'src/core/u32.c', 'src/core/u64.c']

def zz(name, entry, word, nmax, funcs, bound, defs=(), timeout=900, backend=('cadical', 'kissat', 'cvc5int', 'z3'), unwind=None, tiers=('quick', 'thorough')):
    return Ob(name='c05_%s_w%d' % (name, word), harness='harness/C05/zz.c', entry=entry, word=word, defs=['NMAX=%d' % nmax] + list(defs),
              srcs=[f for f in ZZ if not (word == 16 and f.endswith('u64.c'))],
              unwind=unwind or (2 * nmax + 6), timeout=timeout, backend=list(backend), funcs=funcs, bound=bound, tiers=tiers, mem_gb=10)

def obligations(tier):
    q = tier == 'quick'
    obs = []
    A = ['zzAdd', 'zzAdd2', 'zzAdd3', 'zzAddW', 'zzAddW2', 'zzSub', 'zzSub2', 'zzSubW', 'zzSubW2', 'zzNeg', 'zzIsSumEq', 'zzIsSumWEq']
    M = ['zzAddMod', 'zzSubMod', 'zzNegMod', 'zzDoubleMod', 'zzHalfMod', 'zzAddWMod', 'zzSubWMod']
    obs.append(zz('addsub', 'h_addsub', 16, 4, A, 'n symbolic 0..4 words of 16 bits, all values, aliasing c==a, c==b, a==b'))
    obs.append(zz('addsub', 'h_addsub', 64, 1, A, 'n symbolic 0..1 words of 64 bits, all values'))
    obs.append(zz('addsub', 'h_addsub', 32, 2, A, 'n symbolic 0..2 words of 32 bits, all values'))
    obs.append(zz('mod', 'h_mod', 16, 3 if q else 4, M, 'n symbolic 1..%d words of 16 bits, every modulus > 1, all a, b < mod; SAFE and FAST editions' % (3 if q else 4)))
    obs.append(zz('mod', 'h_mod', 64, 1, M, 'n = 1 word of 64 bits, every modulus > 1, all a, b < mod; SAFE and FAST', backend=('cadical', 'kissat', 'z3')))
    NOSO = ['--bounds-check', '--pointer-check', '--undefined-shift-check', '--div-by-zero-check']   # see META: u16 promotion
    def w16(name, entry, funcs, bound, defs, **kw):
        o = zz(name, entry, 16, 3, funcs, bound, defs=['V64'] + list(defs), **kw); o['checks'] = NOSO; return o
    for n in (1, 2, 3):
        HEAVY = dict(tiers=('thorough',), timeout=1500)
        obs.append(w16('mulw_n%d' % n, 'h_mulw', ['zzMulW', 'zzAddMulW', 'zzSubMulW'], 'n = %d words of 16 bits, all values' % n, ['FIX_N=%d' % n], **HEAVY))
        obs.append(w16('divw_n%d' % n, 'h_divw', ['zzDivW', 'zzModW', 'zzModW2'], 'n = %d words of 16 bits, every divisor word != 0' % n, ['FIX_N=%d' % n], **HEAVY))
    for (n, k) in ((1, 1), (2, 1), (2, 2)):
        obs.append(w16('mul_%d_%d' % (n, k), 'h_mul', ['zzMul', 'zzSqr'], '%d x %d words of 16 bits, all values' % (n, k), ['FIX_N=%d' % n, 'FIX_K=%d' % k], **HEAVY))
    for (n, k) in ((1, 1), (2, 1), (2, 2), (3, 2)):
        obs.append(w16('div_%d_%d' % (n, k), 'h_div', ['zzDiv', 'zzMod'], '%d-word dividend, %d-word divisor (16-bit words), top divisor word != 0' % (n, k), ['FIX_N=%d' % n, 'FIX_K=%d' % k], unwind=14, **(dict(timeout=300) if (n, k) == (1, 1) else HEAVY)))
    for (n, k) in ((3, 3), (4, 3)):
        obs.append(Ob(name='c05_divmod_eq_%d_%d_w16' % (n, k), harness='harness/C05/zz.c', entry='h_divmod_eq', word=16, defs=['NMAX=3', 'V64', 'FIX_N=%d' % n, 'FIX_K=%d' % k],
                      srcs=[f for f in ZZ if not f.endswith('u64.c')], unwind=14, timeout=900, checks=NOSO, backend=['cadical', 'kissat'], mem_gb=10,
                      funcs=['zzDiv', 'zzMod'], tiers=('thorough',), bound='%d-word dividend, %d-word divisor (16-bit words), every value with non-zero top divisor word: zzMod == remainder of zzDiv < divisor' % (n, k)))
    PP = ['src/math/pp/pp_mul.c', 'src/math/pp/pp_mod.c', 'src/math/pp/pp_gcd.c', 'src/math/pp/pp_etc.c', 'src/math/pp/pp_red.c', 'src/math/ww.c', 'src/core/mem.c', 'src/core/util.c', 'src/core/word.c', 'src/core/u16.c', 'src/core/u32.c']
    for e, fn, shapes in (('h_mul', ['ppMul', 'ppSqr'], ((1, 1), (2, 1), (2, 2))), ('h_mod', ['ppMod'], ((1, 1), (2, 1), (2, 2), (4, 2))), ('h_gcd', ['ppGCD', 'ppExGCD'], ((1, 1), (2, 2), (2, 1)))):
        for (n, m) in shapes:
            obs.append(Ob(name='c05_pp_%s_%d_%d_w16' % (e[2:], n, m), harness='harness/C05/pp.c', entry=e, word=16, defs=['NN=%d' % n, 'MM=%d' % m], srcs=PP,
                          unwind=72, timeout=900 if (e, n, m) in (('h_mul', 1, 1), ('h_mul', 2, 1)) else 2400, checks=NOSO, backend=['cadical', 'kissat'], mem_gb=10 if (e, n, m) in (('h_mul', 1, 1), ('h_mul', 2, 1)) else 24, funcs=fn,
                          tiers=('quick', 'thorough') if (e, n, m) in (('h_mul', 1, 1), ('h_mul', 2, 1)) else ('thorough',),
                          bound='polynomials of %d and %d words of 16 bits, all values' % (n, m)))
    for n in (1, 2):
        obs.append(w16('redmont_sf_n%d' % n, 'h_redmont_sf', ['zzRedMont', 'wordNegInv'], 'n = %d words of 16 bits: every odd modulus with non-zero top word, every a < mod*B^n; SAFE == FAST, both < mod' % n, ['RED_N=%d' % n], **(dict(timeout=300) if n == 1 else HEAVY)))
        obs.append(w16('redmont_ref_n%d' % n, 'h_redmont', ['zzRedMont'], 'n = %d: result == a*R^-1 mod m for every (m, t, y) with a = y*R - t*m' % n, ['RED_N=%d' % n], timeout=1500, tiers=('thorough',)))
        obs.append(w16('redbarr_n%d' % n, 'h_redbarr', ['zzRedBarrStart', 'zzRedBarr', 'zzRed'], 'n = %d words of 16 bits' % n, ['RED_N=%d' % n], timeout=1500, unwind=16, tiers=('thorough',)))
    obs.append(w16('redcrandmont_sf_n2', 'h_redmont_sf', ['zzRedCrandMont'], 'n = 2 words of 16 bits: every odd modulus B^2 - c; SAFE == FAST, both < mod', ['RED_N=2', 'CRAND'], timeout=1500))
    obs.append(w16('redcrand_sf_n2', 'h_redcrand_sf', ['zzRedCrand'], 'n = 2 words of 16 bits: every modulus B^2 - c, every a < B^4; SAFE == FAST, both < mod', ['RED_N=2'], timeout=1500))
    obs.append(w16('redcrand_ref_n2', 'h_redcrand', ['zzRedCrand'], 'n = 2: result == a mod m', ['RED_N=2'], timeout=1500, tiers=('thorough',)))
    obs.append(w16('redcrandmont_ref_n2', 'h_redcrandmont', ['zzRedCrandMont'], 'n = 2: result == a*R^-1 mod m', ['RED_N=2'], timeout=1500, tiers=('thorough',)))
    obs.append(zz('redmont_sf_n1', 'h_redmont_sf', 64, 1, ['zzRedMont'], 'shipped 64-bit configuration, n = 1: every odd modulus, every a < mod*B; SAFE == FAST, both < mod', defs=['RED_N=1'], timeout=1500, tiers=('thorough',)))
    return [o for o in obs if tier in o.tiers]
