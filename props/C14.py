from vp_check import Ob
from props import C05

META = dict(
    not_decided=['beltKWPUnwrap as a whole: its error return necessarily branches on the (public) verdict of the header comparison, so two runs with different verdicts have different traces; its parts are covered: the wide-block steps (c14_ct_wbl_*) and the comparison routine memEq (c14_ct_mem)', 'machine-code level control flow (branches introduced or removed by gcc -O2 are not visible at goto-program level)',
                 'secret-dependent table addresses (belt H table) are not branches and not part of the property'],
    assumptions=['libc memcmp/strcmp are modelled as early-exit byte loops (what they are documented to be)'],
)
CORE = ['src/core/mem.c', 'src/core/util.c', 'src/core/u16.c', 'src/core/u32.c', 'src/core/u64.c', 'src/core/word.c', 'src/core/hex.c', 'src/math/ww.c']

def obligations(tier):
    obs = []
    obs.append(Ob(name='c14_mem_safe_eq_fast', harness='harness/C14/eq.c', entry='h_mem', srcs=CORE, unwind=28, timeout=600,
                  funcs=['memEq', 'memCmp', 'memCmpRev', 'memIsZero', 'memIsRep (both editions)'], bound='count symbolic 0..20 octets (word loop + tail), all contents'))
    obs.append(Ob(name='c14_ww_safe_eq_fast', harness='harness/C14/eq.c', entry='h_ww', srcs=CORE, unwind=8, timeout=600,
                  funcs=['wwEq', 'wwCmp', 'wwCmp2', 'wwCmpW', 'wwIsZero', 'wwIsW', 'wwIsRepW (both editions)'], bound='n, m symbolic 0..4 words of 64 bits'))
    obs.append(Ob(name='c14_clz_safe_eq_fast', harness='harness/C14/eq.c', entry='h_clz', srcs=CORE, unwind=70, timeout=600,
                  funcs=['u16CLZ', 'u16CTZ', 'u32CLZ', 'u32CTZ', 'u64CLZ', 'u64CTZ (both editions)'], bound='all 16/32/64-bit words'))
    CT = dict(harness='harness/C14/ct.c', branch_trace=True, checks=[],   # memory checks are C07's business; here they only add VCCs
              extra=['stubs/vp_libc.c'], replay='none',
              noreplay_reason='the counterexample is a pair of inputs with different branch traces; control flow is not observable in a native run')
    ZZ = CORE + ['src/math/zz/zz_add.c', 'src/math/zz/zz_mod.c', 'src/math/zz/zz_etc.c']
    obs.append(Ob(name='c14_ct_mem', entry='h_mem', srcs=CORE, unwind=20, unwindset={'traces_equal.0': 402}, timeout=900, defs=['CMAX=16'],
                  funcs=['SAFE memEq', 'memCmp', 'memCmpRev', 'memIsZero', 'memIsRep'], bound='count symbolic 0..16, two independent data sets, branch traces compared', **CT))
    obs.append(Ob(name='c14_ct_ww', entry='h_ww', srcs=CORE, unwind=8, unwindset={'traces_equal.0': 402}, timeout=900,
                  funcs=['SAFE wwEq', 'wwCmp', 'wwCmpW', 'wwIsZero', 'wwIsW', 'wwIsRepW'], bound='n symbolic 0..3 words, two independent data sets', **CT))
    obs.append(Ob(name='c14_ct_zzmod', entry='h_zzmod', srcs=ZZ, unwind=8, unwindset={'traces_equal.0': 402}, timeout=900,
                  funcs=['SAFE zzAddMod', 'zzSubMod', 'zzNegMod', 'zzDoubleMod', 'zzHalfMod', 'zzIsSumEq'], bound='n symbolic 1..3 words, one modulus, two independent operand sets < mod', **CT))
    B = 'src/crypto/belt/'
    BLOCK = (B + 'belt_block.c', {'remove': ['beltBlockEncr', 'beltBlockEncr2', 'beltBlockEncr3', 'beltBlockDecr', 'beltBlockDecr2', 'beltBlockDecr3']})
    BELT_REAL = CORE + ['src/core/blob.c', B + 'belt_block.c', B + 'belt_lcl.c', 'src/crypto/bash/bash_f.c']
    BELT = CORE + ['src/core/blob.c', BLOCK, B + 'belt_lcl.c', B + 'belt_mac.c', B + 'belt_hash.c', B + 'belt_compr.c', B + 'belt_hmac.c', B + 'belt_dwp.c', B + 'belt_che.c',
                   B + 'belt_ctr.c', B + 'belt_kwp.c', B + 'belt_wbl.c', 'src/crypto/bash/bash_hash.c', 'src/math/pp/pp_mul.c', 'src/math/pp/pp_red.c', 'src/math/ww.c']
    for t, lens, fn in (('MAC', ((0, 20, 33) if tier == 'quick' else (0, 7, 16, 20, 33)), ['beltMACStart', 'beltMACStepA', 'beltMACStepV']),
                        ('HMAC', ((33,) if tier == 'quick' else (0, 20, 33)), ['beltHMACStart', 'beltHMACStepA', 'beltHMACStepV']),
                        ('HASH', ((20,) if tier == 'quick' else (0, 20, 33)), ['beltHashStepH', 'beltHashStepV']),
                        ('DWP', ((20,) if tier == 'quick' else (0, 16, 20, 33)), ['beltDWPStart', 'beltDWPStepI', 'beltDWPStepA', 'beltDWPStepV', 'beltDWPStepD', 'beltPolyMul']),
                        ('CHE', ((20,) if tier == 'quick' else (0, 16, 20, 33)), ['beltCHEStart', 'beltCHEStepI', 'beltCHEStepA', 'beltCHEStepV', 'beltCHEStepD']),
                        ('BASHV', ((40,) if tier == 'quick' else (0, 20, 40)), ['bashHashStepH', 'bashHashStepV', 'bashF']),
                        ('BLOCK', (16,), ['beltKeyExpand2', 'beltBlockEncr', 'beltBlockDecr']),
                        ('WBL', ((33,) if tier == 'quick' else (33, 40)), ['beltWBLStart', 'beltWBLStepE', 'beltWBLStepD']),
                        ('BASHF', (40,), ['bashF'])):
        names = {0: 'h_sec_0_16', 7: 'h_sec_7_24', 16: 'h_sec_16_32', 20: 'h_sec_20_32', 33: 'h_sec_33_32', 40: 'h_sec_40_32', 32: None}
        for L in lens:
            e = names.get(L)
            if e is None: continue
            real = t in ('BLOCK', 'BASHF')   # the primitives themselves run for real; the modes run over the uninterpreted cipher
            obs.append(Ob(name='c14_ct_%s_len%d' % (t.lower(), L), entry=e, srcs=BELT_REAL if real else BELT, stub_files=[] if real else ['stubs/belt_block_uf.c', 'stubs/bashf_uf.c'],
                          stubs=[] if real else ['belt_block_uf (the cipher itself is covered by c14_ct_block_len16)'], defs=['T_' + t, 'TRMAX=400'], unwind=200, unwindset={'traces_equal.0': 402, 'memWipe.0': 1100}, timeout=900, mem_gb=20,
                          cbmc_extra=['--slice-formula', '--max-field-sensitivity-array-size', '1100'],
                          funcs=fn, bound='data length %d (concrete), key/iv/tag/data: two independent arbitrary sets; every conditional branch of every function traced' % L, **CT))
    # SAFE == FAST of the zz routines: the C05 obligations assert both editions against the same reference
    for o in C05.obligations(tier):
        if any(k in o.name for k in ('_mod_', 'red', 'addsub')):
            o = Ob(**dict(o)); o['name'] = o.name.replace('c05_', 'c14_zz_'); obs.append(o)
    return obs
