from vp_check import Ob

META = dict(
    not_decided=['PLACEHOLDER'],
    assumptions=['PLACEHOLDER'],
)

MEM = ('src/core/mem.c', {'remove': ['memWipe']})
WIPE = ['harness/C11/stub_memwipe.c']
CORE = [MEM, 'src/core/util.c', 'src/core/u32.c', 'src/core/u64.c', 'src/core/u16.c', 'src/core/word.c', 'src/core/blob.c']
BELT_CORE = CORE + ['src/crypto/belt/belt_lcl.c']
BLOCK = ('src/crypto/belt/belt_block.c', {'remove': ['beltBlockEncr', 'beltBlockEncr2', 'beltBlockEncr3', 'beltBlockDecr', 'beltBlockDecr2', 'beltBlockDecr3']})
UF = ['stubs/belt_block_uf.c']
UFE = ['stubs/belt_block_uf_e.c']
B = 'src/crypto/belt/'
H = 'harness/C11/'
FS = []   # measured: the default field-sensitivity bound is 2.5x faster in symex here than 512 and gives the same formula


def sg(x):
    return ('m%d' % -x) if x < 0 else '%d' % x


def edge_deltas(n):
    """the quick set of shifts of dest against src for a buffer of n octets"""
    return sorted(set([-(n + 16), -n, -17, -16, -15, -1, 0, 1, 15, 16, 17, n, n + 16]))


def all_deltas(n):
    return list(range(-(n + 16), n + 17))


class Layout:
    """arena layout shared by the python side (which enumerates concrete offsets) and the harness (-DASZ)"""
    def __init__(self, maxn, out_extra=0):
        self.maxn = maxn
        self.s0 = maxn + 16 + 24                       # src: fixed offset, dest = s0 + delta >= 24
        self.win = self.s0 + (maxn + 16) + maxn + out_extra + 24
        self.keyp = self.win                           # private places (same object, touched by nothing else)
        self.ivp = self.keyp + 32 + 8
        self.aux2 = self.ivp + 16 + 8                  # second private 16+8-octet place (mac / header / level)
        self.src2p = self.aux2 + 32 + 8                # private place for a second source (maxn octets)
        self.asz = self.src2p + maxn + 16


# ------------------------------------------------------------------ dest, src, count, key, len, iv

def cipher6(fn, srcfile, lens, full_len, tier, uf, steps, maxn=48, aux_lens=None, timeout=300):
    """two obligations per function: <fn>_shift (every shift of dest against src, key/iv private) and
    <fn>_aux (key / iv placed inside, or straddling an edge of, the output region or the source)"""
    q = tier == 'quick'
    L = Layout(maxn)
    inst = []
    nd = 0
    for n in lens:
        ds = all_deltas(n) if (not q or n == full_len) else edge_deltas(n)
        nd += len(ds)
        for d in ds:
            inst.append(('s_%d_%s' % (n, sg(d)), '%d, %d, %d, %d, %d, 32' % (n, L.s0, L.s0 + d, L.keyp, L.ivp)))
    common = dict(harness=H + fn + '.c', defs=['MAXN=%d' % maxn, 'ASZ=%d' % L.asz, 'RSZ=%d' % (2 * maxn + 160)],
                  srcs=BELT_CORE + [BLOCK, B + srcfile] + (['src/crypto/belt/belt_wbl.c'] if 'SDE' in fn else []),
                  stub_files=uf + WIPE, stubs=[uf[0].split('/')[-1][:-2], 'memWipe -> no-op'], unwind=maxn + 40, timeout=timeout, mem_gb=6, cbmc_extra=FS,
                  unwind_rules=[(r'^(belt)\w+Step\w*\.\d+$', maxn // 16 + 4), (r'^c11_cp\.\d+$', L.asz + 2)], funcs=[fn] + steps)
    obs = [Ob(name='c11_%s_shift' % fn, instances=inst,
              bound='count in %s; dest = src + delta, delta in {-(count+16), -count, -17, -16, -15, -1, 0, 1, 15, 16, 17, count, count+16}%s; key (32 octets) and iv outside both: %d concrete placements, each decided for ALL contents of the arena (data, key, iv)'
                    % (list(lens), (' and EVERY delta in [-(count+16), count+16] for count = %d' % full_len) if q else ' - thorough: EVERY delta in [-(count+16), count+16] for every count', len(inst)),
              **common)]
    # auxiliary inputs inside / across the output region (and inside src)
    inst = []
    for n in (aux_lens or lens[:1] + lens[-1:]):
        for d in ([0, 16, -5, n + 16] if q else [0, 1, -1, 16, -16, -5, 5, n, -n, n + 16]):
            do = L.s0 + d
            ivs = [('iD0', do), ('iDe', do + n - 16), ('iDm8', do - 8), ('iDp', do + n - 8), ('iS0', L.s0)]
            if not q: ivs += [('iD1', do + 1), ('iSe', L.s0 + n - 16), ('iSm8', L.s0 - 8)]
            for tag, io in ivs:
                inst.append(('a_%d_%s_%s' % (n, sg(d), tag), '%d, %d, %d, %d, %d, 32' % (n, L.s0, do, L.keyp, io)))
            keys = [('kD0', do, 16), ('kDp', do + n - 8, 32), ('kDm', do - 24, 32), ('kS0', L.s0, 16)]
            if not q: keys += [('kDe24', do + n - 24, 24), ('kD0_32', do, 32)]
            for tag, ko, kl in keys:
                inst.append(('a_%d_%s_%s' % (n, sg(d), tag), '%d, %d, %d, %d, %d, %d' % (n, L.s0, do, ko, L.ivp, kl)))
            # key and iv both inside dest (iv first, key right after it, possibly hanging over the end of dest)
            inst.append(('a_%d_%s_kiD' % (n, sg(d)), '%d, %d, %d, %d, %d, 16' % (n, L.s0, do, do + 16, do)))
    obs.append(Ob(name='c11_%s_aux' % fn, instances=inst,
                  bound='count in %s x delta in %s x {iv at dest+0, dest+count-16, dest-8 (across the start), dest+count-8 (across the end), src+0; key (16..32 octets) at dest+0, across the end, across the start, src+0; iv at dest+0 and key at dest+16}: %d concrete placements, all arena contents symbolic'
                        % (list(aux_lens or lens[:1] + lens[-1:]), 'quick {0, 16, -5, count+16}' if q else '{0, +-1, +-16, +-5, +-count, count+16}', len(inst)),
                  **common))
    return obs


def obligations(tier):
    q = tier == 'quick'
    obs = []
    cts = [16, 17, 31, 32, 33, 47, 48]
    strm = [0, 1, 15, 16, 17, 31, 32, 33]
    obs += cipher6('beltCBCEncr', 'belt_cbc.c', cts, 17, tier, UF, ['beltCBCStart', 'beltCBCStepE', 'memMove'])
    obs += cipher6('beltCBCDecr', 'belt_cbc.c', cts, 33, tier, UF, ['beltCBCStart', 'beltCBCStepD', 'memMove'])
    obs += cipher6('beltCFBEncr', 'belt_cfb.c', strm, 17, tier, UFE, ['beltCFBStart', 'beltCFBStepE', 'memMove'], aux_lens=[17, 33])
    obs += cipher6('beltCFBDecr', 'belt_cfb.c', strm, 33, tier, UFE, ['beltCFBStart', 'beltCFBStepD', 'memMove'], aux_lens=[17, 33])
    obs += cipher6('beltCTR', 'belt_ctr.c', strm, 17, tier, UFE, ['beltCTRStart', 'beltCTRStepE', 'memMove'], aux_lens=[17, 33])
    obs += cipher6('beltBDEEncr', 'belt_bde.c', [16, 32, 48], 32, tier, UF, ['beltBDEStart', 'beltBDEStepE', 'memMove'])
    obs += cipher6('beltBDEDecr', 'belt_bde.c', [16, 32, 48], 32, tier, UF, ['beltBDEStart', 'beltBDEStepD', 'memMove'])
    obs += cipher6('beltSDEEncr', 'belt_sde.c', [32, 48], 32, tier, UFE, ['beltSDEStart', 'beltSDEStepE', 'beltWBLStepE', 'memMove'])
    obs += cipher6('beltSDEDecr', 'belt_sde.c', [32, 48], 32, tier, UFE, ['beltSDEStart', 'beltSDEStepD', 'beltWBLStepD', 'memMove'])
    return obs
