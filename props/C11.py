from vp_check import Ob

META = dict(
    not_decided=[
        'beltECBEncr/beltECBDecr, brngCTRRand, brngHMACRand: their headers carry NO "buffers may overlap" remark (brngHMACRand even forbids buf/iv overlap), so they are outside the quantifier of C11 and are not checked',
        'beltFMTEncr/beltFMTDecr ("all buffers except iv and [count]dest may overlap"): not checked - 64-bit multiplications/divisions by a symbolic modulus stall every back end',
        'low-level remarks "key and state may overlap" (belt*Start, beltKRPStart, beltFMTStart) and "mac/hash and state may overlap if no continuation follows" (beltMACStepG/G2, beltHashStepG/G2, beltHMACStepG2, bashHashStepG): not checked',
        'DER typed decoders with val inside der (derTUINTDec/Dec2, derTBITDec/Dec2, derTOCTDec/Dec2, derTPSTRDec) and derTPSTREnc: not checked (derEnc, derTUINTEnc, derTBITEnc are)',
        'lengths above the stated bounds; in the quick tier only the listed edge shifts (plus one complete sweep of the shift for one length of beltCBCEncr, beltCFBEncr, beltCTR, beltBDEEncr; memMove, memJoin, derEnc, key expansion are swept completely); the thorough tier enumerates EVERY delta in [-(len+16), len+16] for every listed length',
        'shift obligations use a 32-octet key; 16/24-octet keys appear in the *_aux / key_in_dest placements and in beltMAC/beltHMAC/beltKRP',
        'beltKWPUnwrap with the expected header lying inside src (the token): only in the thorough tier (c11_beltKWPUnwrap_hdr_anysrc), a counterexample needs a forged token and cannot be replayed with the real cipher',
        'beltDWPWrap/beltCHEWrap with dest intersecting mac: excluded by belt.h, not generated (and assumed away in the harness)',
        'only the 64-bit little-endian configuration',
    ],
    assumptions=[
        'belt block cipher replaced by an uninterpreted function/bijection (stubs/belt_block_uf_e.c, stubs/belt_block_uf.c), bash-f by stubs/bashf_uf.c, the GF(2^128) product beltPolyMul by an uninterpreted function (harness/C11/stub_polymul_uf.c): an equality of two runs proved under them holds for the real primitives; counterexamples are replayed natively against the real library',
        'memWipe replaced by a no-op under CBMC (harness/C11/stub_memwipe.c): it only wipes the private state blob before it is freed',
        'every argument buffer is a window of ONE static arena (private places included) because beltKWPWrap and memJoin compare argument pointers; the reference run uses a second arena with pairwise disjoint windows',
        'DWP/CHE/MAC/hash/KRP obligations are built with exact-size blobs (BEE2_VERIF_BLOB_EXACT) so that the state struct stays field-sensitive and the "filled" counters constant-propagate; cipher-mode and KWP obligations use the normal 1024-octet blob pages',
        'inputs are read from the arena before the call (copied aside); an auxiliary input placed inside src simply shares those octets with src',
    ],
)

MEM = ('src/core/mem.c', {'remove': ['memWipe']})
WIPE = ['harness/C11/stub_memwipe.c']
CORE = [MEM, 'src/core/util.c', 'src/core/u32.c', 'src/core/u64.c', 'src/core/u16.c', 'src/core/word.c', 'src/core/blob.c']
BELT_CORE = CORE + ['src/crypto/belt/belt_lcl.c']
BLOCK = ('src/crypto/belt/belt_block.c', {'remove': ['beltBlockEncr', 'beltBlockEncr2', 'beltBlockEncr3', 'beltBlockDecr', 'beltBlockDecr2', 'beltBlockDecr3']})
UF = ['stubs/belt_block_uf.c']
UFE = ['stubs/belt_block_uf_e.c']
B = 'src/crypto/belt/'
H = 'harness/C11/'
FS = []   # measured: the default field-sensitivity bound is 2.5x faster in symex here than 512 and gives the same formula


def sg(x):
    return ('m%d' % -x) if x < 0 else '%d' % x


def edge_deltas(n):
    """the quick set of shifts of dest against src for a buffer of n octets"""
    return sorted(set([-(n + 16), -n, -17, -16, -15, -1, 0, 1, 15, 16, 17, n, n + 16]))


def all_deltas(n):
    return list(range(-(n + 16), n + 17))


class Layout:
    """arena layout shared by the python side (which enumerates concrete offsets) and the harness (-DASZ)"""
    def __init__(self, maxn, out_extra=0):
        self.maxn = maxn
        self.s0 = maxn + 16 + 24                       # src: fixed offset, dest = s0 + delta >= 24
        self.win = self.s0 + (maxn + 16) + maxn + out_extra + 24
        self.keyp = self.win                           # private places (same object, touched by nothing else)
        self.ivp = self.keyp + 32 + 8
        self.aux2 = self.ivp + 16 + 8                  # second private 16+8-octet place (mac / header / level)
        self.src2p = self.aux2 + 32 + 8                # private place for a second source (maxn octets)
        self.asz = self.src2p + maxn + 16


# ------------------------------------------------------------------ dest, src, count, key, len, iv

def cipher6(fn, srcfile, lens, full_len, tier, uf, steps, maxn=48, aux_lens=None, timeout=300, exact=False):
    """two obligations per function: <fn>_shift (every shift of dest against src, key/iv private) and
    <fn>_aux (key / iv placed inside, or straddling an edge of, the output region or the source)"""
    q = tier == 'quick'
    L = Layout(maxn)
    inst = []
    nd = 0
    for n in lens:
        ds = all_deltas(n) if (not q or n == full_len) else edge_deltas(n)   # full_len None: no complete sweep in quick (expensive WBL modes)
        nd += len(ds)
        for d in ds:
            inst.append(('s_%d_%s' % (n, sg(d)), '%d, %d, %d, %d, %d, 32' % (n, L.s0, L.s0 + d, L.keyp, L.ivp)))
    common = dict(harness=H + fn + '.c', defs=['MAXN=%d' % maxn, 'ASZ=%d' % L.asz, 'RSZ=%d' % (2 * maxn + 160)],
                  srcs=BELT_CORE + [BLOCK, B + srcfile] + (['src/crypto/belt/belt_wbl.c'] if 'SDE' in fn else []),
                  stub_files=uf + WIPE, stubs=[uf[0].split('/')[-1][:-2], 'memWipe -> no-op'], unwind=maxn + 40, timeout=timeout, mem_gb=6,
                  # stream modes keep a 'reserved' counter in the state: exact-size blob + field-sensitive state so that it constant-propagates
                  blob_exact=exact, cbmc_extra=['--max-field-sensitivity-array-size', '512'] if exact else FS,
                  unwind_rules=[(r'^(belt)\w+Step\w*\.\d+$', maxn // 16 + 4), (r'^c11_cp\.\d+$', L.asz + 2)], funcs=[fn] + steps)
    obs = [Ob(name='c11_%s_shift' % fn, instances=inst,
              bound='count in %s; dest = src + delta, delta in {-(count+16), -count, -17, -16, -15, -1, 0, 1, 15, 16, 17, count, count+16}%s; key (32 octets) and iv outside both: %d concrete placements, each decided for ALL contents of the arena (data, key, iv)'
                    % (list(lens), (' and EVERY delta in [-(count+16), count+16] for count = %d' % full_len if full_len is not None else ' (complete delta range for this function only in the thorough tier)') if q else ' - thorough: EVERY delta in [-(count+16), count+16] for every count', len(inst)),
              **common)]
    # auxiliary inputs inside / across the output region (and inside src)
    inst = []
    if aux_lens is None: aux_lens = lens[-2:-1] if q else lens[:1] + lens[-1:]
    for n in aux_lens:
        for d in ([0, 16] if q else [0, 1, -1, 16, -16, -5, 5, n, -n, n + 16]):
            do = L.s0 + d
            ivs = [('iD0', do), ('iDm8', do - 8), ('iDp', do + n - 8)]
            if not q: ivs += [('iDe', do + n - 16), ('iS0', L.s0), ('iD1', do + 1), ('iSe', L.s0 + n - 16), ('iSm8', L.s0 - 8)]
            for tag, io in ivs:
                inst.append(('a_%d_%s_%s' % (n, sg(d), tag), '%d, %d, %d, %d, %d, 32' % (n, L.s0, do, L.keyp, io)))
            keys = [('kD0', do, 16), ('kDp', do + n - 8, 32)]
            if not q: keys += [('kDm', do - 24, 32), ('kS0', L.s0, 16), ('kDe24', do + n - 24, 24), ('kD0_32', do, 32)]
            for tag, ko, kl in keys:
                inst.append(('a_%d_%s_%s' % (n, sg(d), tag), '%d, %d, %d, %d, %d, %d' % (n, L.s0, do, ko, L.ivp, kl)))
            # key and iv both inside dest (iv first, key right after it, possibly hanging over the end of dest)
            inst.append(('a_%d_%s_kiD' % (n, sg(d)), '%d, %d, %d, %d, %d, 16' % (n, L.s0, do, do + 16, do)))
    obs.append(Ob(name='c11_%s_aux' % fn, instances=inst,
                  bound=('count in %s x delta in %s ' % (list(aux_lens), 'quick {0, 16}' if q else '{0, +-1, +-16, +-5, +-count, count+16}')) + 'x {iv at dest+0, dest-8 (across the start), dest+count-8 (across the end); key[16] at dest+0, key[32] across the end; iv at dest+0 together with key at dest+16%s}' % ('' if q else '; thorough adds iv at dest+1, dest+count-16, src+0, src+count-16, src-8 and key across the start, at src+0, key[24] at the end, key[32] at dest+0') + ': %d concrete placements, all arena contents symbolic' % len(inst),
                  **common))
    return obs


# ------------------------------------------------------------------ beltKWPWrap / beltKWPUnwrap

NOHDR = 99999


def ovl(o1, n1, o2, n2):
    return n1 > 0 and n2 > 0 and o1 < o2 + n2 and o2 < o1 + n1


def kwp(tier):
    q = tier == 'quick'
    maxn = 48
    L = Layout(maxn, out_extra=16)
    hdrp = L.aux2
    obs = []
    for unwrap in (False, True):
        fn = 'beltKWPUnwrap' if unwrap else 'beltKWPWrap'
        outlen = (lambda n: n - 16) if unwrap else (lambda n: n + 16)
        lens = ([32, 33] if unwrap else [16, 17]) if q else ([32, 33, 40, 47, 48] if unwrap else [16, 17, 24, 31, 32, 33, 40])
        big = 48 if unwrap else 32    # quick: one more length with a few shifts only
        common = dict(harness=H + fn + '.c', defs=['MAXN=%d' % maxn, 'ASZ=%d' % L.asz, 'RSZ=%d' % (2 * maxn + 176)],
                      srcs=BELT_CORE + [BLOCK, B + 'belt_kwp.c', B + 'belt_wbl.c'], stub_files=UFE + WIPE, stubs=['belt_block_uf_e', 'memWipe -> no-op'],
                      unwind=maxn + 40, timeout=300, mem_gb=6, cbmc_extra=FS,
                      unwind_rules=[(r'^(belt)\w+Step\w*\.\d+$', 2 * ((maxn + 16) // 16) + 3), (r'^c11_cp\.\d+$', L.asz + 2), (r'^memJoin\.\d+$', 20)],
                      funcs=[fn, 'beltWBLStart', 'beltWBLStepE', 'beltWBLStepD2', 'memMove', 'memJoin'])
        sh_h, sh_0 = [], []
        for n in lens:
            for d in (edge_deltas(n) if q else all_deltas(n)):
                sh_h.append(('s_%d_%s' % (n, sg(d)), '%d, %d, %d, %d, %d, 32' % (n, L.s0, L.s0 + d, hdrp, L.keyp)))
            for d in ([0, 1, -16] if q and n == lens[0] else [] if q else edge_deltas(n)):
                sh_0.append(('z_%d_%s' % (n, sg(d)), '%d, %d, %d, %d, %d, 32' % (n, L.s0, L.s0 + d, NOHDR, L.keyp)))
        if q:
            for d in [0, 1, -1, 16, -16]:
                sh_h.append(('s_%d_%s' % (big, sg(d)), '%d, %d, %d, %d, %d, 32' % (big, L.s0, L.s0 + d, hdrp, L.keyp)))
        rng = 'delta in {-(count+16), -count, -17, -16, -15, -1, 0, 1, 15, 16, 17, count, count+16}' if q else 'EVERY delta in [-(count+16), count+16]'
        obs.append(Ob(name='c11_%s_shift' % fn, instances=sh_h,
                      bound='count in %s; dest = src + delta, %s; header and key (32 octets) outside%s: %d concrete placements, all arena contents symbolic' % (lens, rng, (' plus count = %d x delta in {0, +-1, +-16}' % big) if q else '', len(sh_h)), **common))
        obs.append(Ob(name='c11_%s_shift_nohdr' % fn, instances=sh_0,
                      bound='header == 0 (zero header); count in %s (quick: the first one only); dest = src + delta, delta in %s: %d concrete placements, all arena contents symbolic'
                            % (lens, '{0, 1, -16}' if q else 'the 13 edge values', len(sh_0)), **common))
        # header / key inside or across the output region; placements with header inside src separately
        # (beltKWPWrap answers ERR_BAD_INPUT for them although belt.h lists no such exception)
        hdst, kdst, hsrc = [], [], []
        alens = [lens[0], big] if q else lens[:2] + lens[-2:]
        adel = lambda n: ([0, 16, -16] + ([n + 16] if unwrap else [])) if q else [0, 1, -1, 16, -16, 5, -5, n + 16, -(n + 16)]
        for n in alens:
            o = outlen(n)
            for d in adel(n):
                do = L.s0 + d
                for tag, ho in [('h0', do), ('h8', do + 8), ('hT', do + o - 16), ('hTm8', do + o - 24), ('hE', do + o - 8), ('hB', do - 8)]:
                    it = ('a_%d_%s_%s' % (n, sg(d), tag), '%d, %d, %d, %d, %d, 32' % (n, L.s0, do, ho, L.keyp))
                    if ovl(ho, 16, L.s0, n): hsrc.append(it)
                    elif ovl(ho, 16, do, o): hdst.append(it)
                for tag, ko, kl in [('k0', do, 32), ('kE', do + o - 8, 16)]:
                    kdst.append(('a_%d_%s_%s' % (n, sg(d), tag), '%d, %d, %d, %d, %d, %d' % (n, L.s0, do, hdrp, ko, kl)))
        grid = 'count in %s x delta in %s' % (alens, ('{0, 16, -16, count+16}' if unwrap else '{0, 16, -16}') if q else '{0, +-1, +-16, +-5, +-(count+16)}')
        obs.append(Ob(name='c11_%s_key_in_dest' % fn, instances=kdst,
                      bound='key inside / across the end of the output region (header outside): %s x {key[32] at dest+0, key[16] across the end of dest}: %d concrete placements, all arena contents symbolic' % (grid, len(kdst)), **common))
        obs.append(Ob(name='c11_%s_hdr_in_dest' % fn, instances=hdst,
                      bound='header (disjoint from src) inside / across an edge of the output region: %s x {header at dest+0, +8, last 16 octets, last 24..8, across the end, across the start}: %d concrete placements, all arena contents symbolic' % (grid, len(hdst)), **common))
        if unwrap:
            # src = valid token made by the real beltKWPWrap from symbolic key material, header and key (see kwp.h)
            obs[-1]['defs'] = common['defs'] + ['VALIDTOKEN']
            obs[-1]['bound'] += '; src is a VALID token (real beltKWPWrap of symbolic key material / header / key): a counterexample then replays with the real cipher'
            if not q:
                obs.append(Ob(name='c11_%s_hdr_anysrc' % fn, instances=hdst + hsrc, bound='as _hdr_in_dest plus header inside src, src ARBITRARY (a counterexample may need a forged token: UNCONFIRMED expected while the header-inside-dest defect exists), %d placements' % len(hdst + hsrc), **common))
        else:
            obs.append(Ob(name='c11_%s_hdr_in_src' % fn, instances=hsrc,
                          bound='header overlapping src (allowed by the remark in belt.h, no exception listed): same grid, %d concrete placements' % len(hsrc), **common))
    return obs


# ------------------------------------------------------------------ DWP / CHE

LCL_UF = (B + 'belt_lcl.c', {'remove': ['beltPolyMul', 'beltPolyMul_deep']})
POLY = ['harness/C11/stub_polymul_uf.c']


def aead(tier):
    q = tier == 'quick'
    maxn, maxn2 = 33, 17
    L = Layout(maxn)
    macp = L.aux2
    obs = []
    for mode in ('DWP', 'CHE'):
        for unwrap in (False, True):
            fn = 'belt%s%s' % (mode, 'Unwrap' if unwrap else 'Wrap')
            uf = UF if unwrap and False else UFE   # CTR-based: both directions only ever ENcrypt blocks
            common = dict(harness=H + fn + '.c', defs=['MAXN=%d' % maxn, 'MAXN2=%d' % maxn2, 'ASZ=%d' % L.asz, 'RSZ=%d' % (2 * maxn + maxn2 + 200)],
                          srcs=CORE + [LCL_UF, BLOCK, B + 'belt_ctr.c', B + 'belt_dwp.c'] + ([B + 'belt_che.c'] if mode == 'CHE' else []) + ['src/math/ww.c'],   # beltCHEUnwrap sizes its state with beltDWP_keep()
                          stub_files=uf + WIPE + POLY, stubs=['belt_block_uf_e', 'beltPolyMul -> uninterpreted GF(2^128) product', 'memWipe -> no-op'],
                          unwind=maxn + 40, timeout=300, mem_gb=6, blob_exact=True, cbmc_extra=['--max-field-sensitivity-array-size', '512'],
                          unwind_rules=[(r'^(belt)\w+Step\w*\.\d+$', maxn // 16 + 4), (r'^c11_cp\.\d+$', L.asz + 2)],
                          funcs=[fn] + ['belt%s%s' % (mode, x) for x in ('Start', 'StepI', 'StepE', 'StepA', 'StepD', 'StepG', 'StepV')])
            lens = [(17, 5), (33, 17)] if q else [(a, b) for a in (0, 1, 16, 17, 33) for b in (0, 17)] + [(32, 5), (15, 16)]
            inst = []
            for (n1, n2) in lens:
                for d in (edge_deltas(n1) if q else all_deltas(n1)):
                    inst.append(('s_%d_%d_%s' % (n1, n2, sg(d)), '%d, %d, %d, %d, %d, %d, %d, %d, 32' % (n1, n2, L.s0, L.s0 + d, L.src2p, macp, L.keyp, L.ivp)))
            obs.append(Ob(name='c11_%s_shift' % fn, instances=inst,
                          bound='(count1, count2) in %s; dest = src1 + delta, %s; src2, mac, key (32 octets), iv outside: %d concrete placements, all arena contents symbolic'
                                % (lens, 'delta in {-(count1+16), -count1, -17, -16, -15, -1, 0, 1, 15, 16, 17, count1, count1+16}' if q else 'EVERY delta in [-(count1+16), count1+16]', len(inst)), **common))
            # auxiliary buffers inside the output region / inside the inputs
            inst = []
            for (n1, n2) in ([(33, 17)] if q else [(17, 5), (33, 17)]):
                for d in ([16] if q else [0, 1, -1, 16, -16, 5, -5, n1 + 16]):
                    do = L.s0 + d
                    P = dict(s2=L.src2p, m=macp, k=L.keyp, i=L.ivp, kl=32)
                    var = [('s2D0', dict(s2=do)), ('s2De', dict(s2=do + n1 - n2)), ('s2Dp', dict(s2=do + n1 - 8)), ('s2Dm', dict(s2=do - 8)), ('s2S', dict(s2=L.s0 + 3)),
                           ('iD0', dict(i=do)), ('iDp', dict(i=do + n1 - 8)), ('iS0', dict(i=L.s0)),
                           ('kD0', dict(k=do)), ('kDp', dict(k=do + n1 - 8, kl=16)),
                           ('all', dict(s2=do + 16, i=do, k=do + 1, kl=32))]
                    if unwrap:
                        var += [('mD0', dict(m=do)), ('mDe', dict(m=do + n1 - 8)), ('mDp', dict(m=do + n1 - 4)), ('mDm', dict(m=do - 4)), ('mS0', dict(m=L.s0)), ('mS2', dict(m=L.src2p + 2))]
                    else:
                        # mac is an OUTPUT here: anywhere but inside dest; over src1 only where src1 sticks out of dest
                        var += [('mS2', dict(m=L.src2p + 2)), ('mK', dict(m=L.keyp + 5)), ('mI', dict(m=L.ivp + 8)), ('mI0', dict(m=L.ivp))]
                        if d >= 8: var.append(('mS1', dict(m=L.s0)))
                        if d <= -8: var.append(('mS1e', dict(m=L.s0 + n1 - 8)))
                    for tag, ch in var:
                        a = dict(P); a.update(ch)
                        if not unwrap and ovl(do, n1, a['m'], 8): continue
                        inst.append(('a_%d_%d_%s_%s' % (n1, n2, sg(d), tag), '%d, %d, %d, %d, %d, %d, %d, %d, %d' % (n1, n2, L.s0, do, a['s2'], a['m'], a['k'], a['i'], a['kl'])))
            obs.append(Ob(name='c11_%s_aux' % fn, instances=inst,
                          bound='(count1, count2) in %s x delta in %s x {src2 at dest+0, at the end of dest, across the end, across the start, inside src1; iv at dest+0, across the end, src1+0; key at dest+0, across the end; src2+iv+key all inside dest; %s}: %d concrete placements, all arena contents symbolic'
                                % ([(33, 17)] if q else [(17, 5), (33, 17)], '{16}' if q else '{0, +-1, +-16, +-5, count1+16}',
                                   'mac (input) at dest+0, end of dest, across both edges, src1+0, inside src2' if unwrap else 'mac (output) over src2, key, iv, the part of src1 outside dest - never intersecting dest (excluded by belt.h)', len(inst)), **common))
    return obs


# ------------------------------------------------------------------ one-shot MAC / hash / KRP

def digests(tier):
    q = tier == 'quick'
    maxn = 48
    L = Layout(maxn)
    obs = []

    def mk(fn, kind, srcs, stub_files, stubs, inst, bound, steps, blk=16, timeout=300, core=None):
        return Ob(name='c11_%s' % fn, harness=H + fn + '.c', defs=['MAXN=%d' % maxn, 'ASZ=%d' % L.asz, 'RSZ=%d' % (maxn + 260)], instances=inst,
                  srcs=(core if core is not None else BELT_CORE + [BLOCK]) + srcs, stub_files=stub_files + WIPE, stubs=stubs + ['memWipe -> no-op'],
                  unwind=maxn + 40, timeout=timeout, mem_gb=6, blob_exact=True, cbmc_extra=['--max-field-sensitivity-array-size', '512'],
                  unwind_rules=[(r'^(belt|bash)\w+Step\w*\.\d+$', maxn // blk + 3), (r'^c11_cp\.\d+$', L.asz + 2), (r'^bashF\.\d+$', 26)], funcs=[fn] + steps, bound=bound)

    def outpos(n, olen, full):
        """offsets of the output against src: every shift that makes them intersect plus the two disjoint ends"""
        lo, hi = -(olen + 16), n + 16
        if full: return list(range(lo, hi + 1))
        return sorted(set(x for x in [lo, -olen, -olen + 1, -17, -16, -15, -1, 0, 1, 15, 16, 17, n - olen, n - olen + 1, n - 1, n, hi] if lo <= x <= hi))

    # beltMAC(mac[8], src, count, key, len)
    inst = []
    lens = [0, 17, 33] if q else [0, 1, 15, 16, 17, 31, 32, 33]
    for n in lens:
        ds = outpos(n, 8, not q)
        if q: ds = [d for d in ds if d in (-24, -8, -7, -1, 0, 1, 16, n - 8, n - 7, n - 1, n, n + 16)]
        for d in ds:
            inst.append(('o_%d_%s' % (n, sg(d)), '%d, 32, %d, %d, %d, 0' % (n, L.s0, L.s0 + d, L.keyp)))
    for n in ([33] if q else [17, 33]):
        for kl in (16, 24, 32):
            for tag, oo, ko in [('mK0', L.keyp, L.keyp), ('mKe', L.keyp + kl - 8, L.keyp), ('mKx', L.keyp + kl - 4, L.keyp), ('mKb', L.keyp - 4, L.keyp),
                                ('kS', L.s0 + 5, L.s0 + 1), ('kSm', L.s0, L.s0 + n - 8)]:
                inst.append(('k_%d_%d_%s' % (n, kl, tag), '%d, %d, %d, %d, %d, 0' % (n, kl, L.s0, oo, ko)))
    obs.append(mk('beltMAC', 'MAC', [B + 'belt_mac.c'], UFE, ['belt_block_uf_e'], inst,
                  'count in %s x mac at src + d, d in %s; plus count in {33} (thorough: {17, 33}) x key length 16/24/32 x {mac at key+0, last 8 octets of key, across both ends of key; key inside src with mac inside both}: %d concrete placements, all arena contents symbolic'
                  % (lens, 'the edge set {-24, -8, -7, -1, 0, 1, 16, count-8, count-7, count-1, count, count+16}' if q else 'EVERY value of [-24, count+16]', len(inst)),
                  ['beltMACStart', 'beltMACStepA', 'beltMACStepG']))
    # beltHash(hash[32], src, count)
    inst = []
    lens = [0, 33] if q else [0, 1, 32, 33, 48]
    for n in lens:
        ds = outpos(n, 32, not q)
        if q: ds = [d for d in ds if d in (-48, -31, -1, 0, 1, 16, n - 31, n - 1, n + 16)]
        for d in ds:
            inst.append(('o_%d_%s' % (n, sg(d)), '%d, 0, %d, %d, %d, 0' % (n, L.s0, L.s0 + d, L.keyp)))
    obs.append(mk('beltHash', 'HASH', [B + 'belt_hash.c', B + 'belt_compr.c'], UFE, ['belt_block_uf_e'], inst,
                  'count in %s x hash at src + d, d in %s: %d concrete placements, all arena contents symbolic'
                  % (lens, '{-48, -31, -1, 0, 1, 16, count-31, count-1, count+16}' if q else 'EVERY value of [-48, count+16]', len(inst)),
                  ['beltHashStart', 'beltHashStepH', 'beltHashStepG'], blk=32))
    # beltHMAC(mac[32], src, count, key, len): ~40 s per placement (C10 measurement) -> few placements in quick
    inst = []
    pl = [(0, 32, 0, 'K'), (33, 32, 1, 'S'), (17, 40, 5, 'K')] if q else \
         [(n, kl, d, w) for n in (0, 17, 33) for kl in (16, 32, 40) for (d, w) in ((0, 'S'), (1, 'S'), (-5, 'S'), (n - 8, 'S'), (0, 'K'), (kl - 8, 'K'), (-8, 'K'))]
    for n, kl, d, w in pl:
        inst.append(('o_%d_%d_%s%s' % (n, kl, w, sg(d)), '%d, %d, %d, %d, %d, 0' % (n, kl, L.s0, (L.s0 if w == 'S' else L.keyp) + d, L.keyp)))
    obs.append(mk('beltHMAC', 'HMAC', [B + 'belt_hmac.c', B + 'belt_hash.c', B + 'belt_compr.c'], UFE, ['belt_block_uf_e'], inst,
                  '(count, key length, offset of mac against Src or Key) in %s: %d concrete placements, all arena contents symbolic (each costs 20-60 s: the complete grid only in the thorough tier)' % (pl if q else 'count {0,17,33} x key length {16,32,40} x {src+0, src+1, src-5, src+count-8, key+0, key+len-8, key-8}', len(inst)),
                  ['beltHMACStart', 'beltHMACStepA', 'beltHMACStepG'], blk=32, timeout=600))
    # bashHash(hash[l/4], l, src, count)
    inst = []
    pl = [(128, 33), (256, 5)] if q else [(128, 0), (128, 33), (192, 48), (256, 5), (256, 48)]
    for l, n in pl:
        ds = outpos(n, l // 4, False)
        if q: ds = [d for d in ds if d in (-(l // 4) + 1, -1, 0, 1, n - 1, n + 16)]
        for d in ds:
            inst.append(('o_%d_%d_%s' % (l, n, sg(d)), '%d, %d, %d, %d, %d, 0' % (n, l, L.s0, L.s0 + d, L.keyp)))
    obs.append(mk('bashHash', 'BASH', ['src/crypto/bash/bash_hash.c'], ['stubs/bashf_uf.c'], ['bashf_uf'], inst,
                  '(l, count) in %s x hash at src + d, d in %s: %d concrete placements, all arena contents symbolic' % (pl, '{-l/4+1, -1, 0, 1, count-1, count+16}' if q else 'the edge set', len(inst)),
                  ['bashHashStart', 'bashHashStepH', 'bashHashStepG'], blk=64, core=CORE))
    # beltKRP(dest[m], m, src[n], n, level[12], header[16])
    inst = []
    lvp, hdp = L.keyp, L.aux2
    for (m, n) in ([(16, 16), (24, 32)] if q else [(16, 16), (16, 24), (24, 24), (16, 32), (24, 32), (32, 32)]):
        for d in ([-m + 1, -1, 0, 1, n - 1] if q else range(-(m + 16), n + 17)):
            inst.append(('o_%d_%d_%s' % (m, n, sg(d)), '%d, %d, %d, %d, %d, %d' % (n, m, L.s0, L.s0 + d, lvp, hdp)))
        for tag, oo, lo, ho in [('dL', lvp, lvp, hdp), ('dLx', lvp + 4, lvp, hdp), ('dH', hdp, lvp, hdp), ('dHx', hdp - 8, lvp, hdp),
                                ('lhS', L.s0 + n + 16, L.s0, L.s0 + 4), ('all', L.s0, L.s0 + 2, L.s0)]:
            inst.append(('x_%d_%d_%s' % (m, n, tag), '%d, %d, %d, %d, %d, %d' % (n, m, L.s0, oo, lo, ho)))
    obs.append(mk('beltKRP', 'KRP', [B + 'belt_krp.c', B + 'belt_compr.c'], UFE, ['belt_block_uf_e'], inst,
                  '(m, n) in %s x {dest at src + d, d in %s; dest over level, across the end of level, over header, across the start of header; level and header inside src; dest == src == header with level inside}: %d concrete placements, all arena contents symbolic'
                  % ('{(16,16),(24,32)}' if q else 'every admissible pair', '{-m+1, -1, 0, 1, n-1}' if q else 'EVERY value of [-(m+16), n+16]', len(inst)),
                  ['beltKRPStart', 'beltKRPStepG', 'beltCompr']))
    return obs


# ------------------------------------------------------------------ memMove, memJoin, derEnc, beltKeyExpand

def helpers(tier):
    q = tier == 'quick'
    obs = []

    def mk(name, kind, maxn, inst, bound, srcs, funcs, extra_defs=(), unwind=None, rules=()):
        asz = 3 * maxn + 80 if kind != 'JOIN' else 5 * maxn + 40
        return Ob(name=name, harness=H + 'helpers.c', defs=['T_' + kind, 'MAXN=%d' % maxn, 'ASZ=%d' % asz, 'RSZ=%d' % (2 * maxn + 64)] + list(extra_defs), instances=inst,
                  srcs=srcs, unwind=unwind or (asz + 8), unwind_rules=list(rules), timeout=300, mem_gb=6, funcs=funcs, bound=bound)
    nmax = 17 if q else 40
    inst = [('mv_%d' % n, '%d, %d, %d' % (n, -(n + 16), n + 16)) for n in range(0, nmax + 1)]
    obs.append(mk('c11_memMove', 'MOVE', nmax, inst, 'EVERY count in 0..%d x EVERY delta in [-(count+16), count+16] (one query per count, placements walked by a concrete loop), contents symbolic' % nmax,
                  ['src/core/mem.c'], ['memMove']))
    jm = 3 if q else 6
    inst = [('j_%d_%d' % (a, b), '%d, %d' % (a, b)) for a in range(0, jm + 1) for b in range(0, jm + 1)]
    obs.append(mk('c11_memJoin', 'JOIN', jm, inst,
                  'EVERY (count1, count2) in 0..%d x 0..%d x EVERY src1 = dest + d1, d1 in [-(count1+1), count1+count2+1] x EVERY src2 = dest + d2, d2 in [-(count2+1), count1+count2+1] (src1 and src2 may intersect each other as well; all five branches of memJoin incl. goto repeat are reached), contents symbolic' % (jm, jm),
                  ['src/core/mem.c'], ['memJoin', 'memMove', 'memIsDisjoint2'], unwind=80))
    tags = [('04', '0x04'), ('1F1F', '0x1F1F'), ('1F8100', '0x1F8100'), ('bad1F00', '0x1F00')]
    lens = [0, 1, 2, 5, 16] if q else list(range(0, 25))
    inst = [('d_%s_%d' % (t, n), '%s, %d, %d, %d' % (c, n, -(n + 8 + 4), n + 8)) for t, c in (tags[:2] + tags[3:] if q else tags) for n in lens]
    big = [128] if q else [127, 128, 129, 255, 256]
    bmax = max(big)
    inst_b = []
    for t, c in tags[:2]:
        for n in big:
            for lo, hi in ([(-(n + 12), -(n - 2)), (-9, 9), (n - 6, n + 8)] if q else [(-(n + 12), n + 8)]):
                inst_b.append(('d_%s_%d_%s' % (t, n, sg(lo)), '%s, %d, %d, %d' % (c, n, lo, hi)))
    obs.append(mk('c11_derEnc', 'DER', max(lens), inst, 'tag in {04, 1F1F, %sinvalid 1F00} x EVERY len in %s x EVERY der = val + d, d in [-(len+12), len+8], contents symbolic' % ('' if q else '1F8100, ', lens),
                  ['src/core/der.c', 'src/core/mem.c', 'src/core/util.c', 'src/core/u32.c'], ['derEnc', 'derTEnc', 'derLEnc']))
    obs.append(mk('c11_derEnc_longL', 'DER', bmax, inst_b, 'two- and three-octet L: tag in {04, 1F1F} x len in %s x der = val + d, d in %s, contents symbolic' % (big, '[-(len+12), -(len-2)] + [-9, 9] + [len-6, len+8]' if q else 'EVERY value of [-(len+12), len+8]'),
                  ['src/core/der.c', 'src/core/mem.c', 'src/core/util.c', 'src/core/u32.c'], ['derEnc', 'derTEnc', 'derLEnc']))
    tl = [1, 2, 3, 9] if q else list(range(1, 18))
    tl = [1, 2, 3]   # larger lengths do not fit the fixed reference area of the harness (its assumption made the thorough instances vacuous)
    # the encoder strips leading zero octets: the copy length becomes symbolic -> one placement per query, small len
    inst = [('u_%d_%s' % (n, sg(d)), '0x02, %d, %d, %d, %d' % (n, 8 * n, d, d)) for n in tl for d in ([-(n + 4), -2, -1, 0, 1, 2, n + 3] if q else range(-(n + 4), n + 4))]
    obs.append(mk('c11_derTUINTEnc', 'DERT', max(tl), inst, 'tag 02 x EVERY len in %s x der = val + d, d in %s, contents symbolic (incl. leading zero octets / high bit set)' % (tl, '{-(len+4), -2, -1, 0, 1, 2, len+3}' if q else 'EVERY value of [-(len+4), len+3]'),
                  ['src/core/der.c', 'src/core/mem.c', 'src/core/util.c', 'src/core/u32.c'], ['derTUINTEnc', 'derTLEnc', 'memCopy', 'memRev'], unwind=12, rules=[(r'^c11_cp\.\d+$', 100)]))
    bl = [(0, 0), (1, 1), (1, 8), (2, 13), (9, 72)] if q else [((b + 7) // 8, b) for b in range(0, 80)]
    inst = [('b_%d' % b, '0x03, %d, %d, %d, %d' % (n, b, -(n + 12), n + 8)) for n, b in bl]
    obs.append(mk('c11_derTBITEnc', 'DERT', max(n for n, b in bl), inst, 'tag 03 x bit lengths %s x EVERY der = val + d, d in [-(octets+12), octets+8], contents symbolic' % ([b for n, b in bl] if q else '0..79'),
                  ['src/core/der.c', 'src/core/mem.c', 'src/core/util.c', 'src/core/u32.c'], ['derTBITEnc', 'derTEnc', 'derLEnc'], extra_defs=['ENC_BIT']))
    for k2 in (False, True):
        inst = [('k_%d' % n, '%d, -48, 48' % n) for n in (16, 24, 32)]
        obs.append(mk('c11_beltKeyExpand2' if k2 else 'c11_beltKeyExpand', 'KEYX', 32, inst,
                      'len in {16, 24, 32} x EVERY key_ = key + d, d in [-48, 48]%s, contents symbolic' % (' that keeps u32 key_[8] aligned (d % 4 == 0)' if k2 else ''),
                      ['src/crypto/belt/belt_block.c', 'src/core/mem.c', 'src/core/util.c', 'src/core/u32.c'], ['beltKeyExpand2' if k2 else 'beltKeyExpand'], extra_defs=['KEYX2'] if k2 else []))
    return obs


def obligations(tier):
    q = tier == 'quick'
    obs = []
    # quick: a complete sweep of the shift for beltCBCEncr (count 17); the other modes call the same memMove(dest, src, count)
    # first and get the edge shifts only (memMove itself is swept completely in c11_memMove); thorough: everything
    def L(quick, thorough): return quick if q else thorough
    cts = [16, 17, 31, 32, 33, 47, 48]
    strm = [0, 1, 15, 16, 17, 31, 32, 33]
    blk = [16, 32, 48]
    obs += cipher6('beltCBCEncr', 'belt_cbc.c', L([16, 17, 33, 48], cts), 17, tier, UF, ['beltCBCStart', 'beltCBCStepE', 'memMove'], aux_lens=L([33], None))
    obs += cipher6('beltCBCDecr', 'belt_cbc.c', L([17, 32, 48], cts), L(None, 17), tier, UF, ['beltCBCStart', 'beltCBCStepD', 'memMove'], aux_lens=L([32], None))
    obs += cipher6('beltCFBEncr', 'belt_cfb.c', L([0, 1, 17, 33], strm), L(None, 17), tier, UFE, ['beltCFBStart', 'beltCFBStepE', 'memMove'], aux_lens=L([33], [17, 33]), exact=True)
    obs += cipher6('beltCFBDecr', 'belt_cfb.c', L([1, 16, 33], strm), L(None, 17), tier, UFE, ['beltCFBStart', 'beltCFBStepD', 'memMove'], aux_lens=L([33], [17, 33]), exact=True)
    obs += cipher6('beltCTR', 'belt_ctr.c', L([0, 1, 17, 33], strm), L(None, 17), tier, UFE, ['beltCTRStart', 'beltCTRStepE', 'memMove'], aux_lens=L([33], [17, 33]), exact=True)
    obs += cipher6('beltBDEEncr', 'belt_bde.c', L([16, 48], blk), L(None, 16), tier, UF, ['beltBDEStart', 'beltBDEStepE', 'memMove'], aux_lens=L([32], None))
    obs += cipher6('beltBDEDecr', 'belt_bde.c', L([32], blk), L(None, 16), tier, UF, ['beltBDEStart', 'beltBDEStepD', 'memMove'], aux_lens=L([32], None))
    obs += cipher6('beltSDEEncr', 'belt_sde.c', L([32], [32, 48]), None, tier, UFE, ['beltSDEStart', 'beltSDEStepE', 'beltWBLStepE', 'memMove'], aux_lens=L([32], None))
    obs += cipher6('beltSDEDecr', 'belt_sde.c', L([32], [32, 48]), None, tier, UFE, ['beltSDEStart', 'beltSDEStepD', 'beltWBLStepD', 'memMove'], aux_lens=L([32], None))
    obs += kwp(tier)
    obs += aead(tier)
    obs += digests(tier)
    obs += helpers(tier)
    for o in obs:   # one entry point per distinct placement
        seen = set(); u = []
        for e in o['instances']:
            if e[0] not in seen: seen.add(e[0]); u.append(e)
        if len(u) != len(o['instances']):
            o['bound'] = o['bound'].replace('%d concrete placements' % len(o['instances']), '%d concrete placements' % len(u))
            o['instances'] = u
    return obs
