from vp_check import Ob

META = dict(
    not_decided=['messages longer than the stated bound', 'more than 3 fragments', 'bash programmable automaton command sequences (see C03)',
                 'symbolic-length single-query variants were measured at 170-660 s and >14 GB per bundle and are not run; the driver enumerates the complete set of length tuples inside the bound instead, all data symbolic'],
    assumptions=['belt block cipher replaced by an uninterpreted bijection (stubs/belt_block_uf.c), bash-f by an uninterpreted function (stubs/bashf_uf.c); equalities proved under them hold for the real primitives',
                 'relocation: state copied to a fresh exact-size heap object at both fragment boundaries, old object overwritten and freed',
                 'key length fixed to 32 in the chunking instances (key expansion is independent of fragmenting; all three lengths are covered under C01)'],
)
CORE = ['src/core/mem.c', 'src/core/util.c', 'src/core/u32.c', 'src/core/u64.c', 'src/core/u16.c', 'src/core/word.c', 'src/core/blob.c']
BELT_CORE = CORE + ['src/crypto/belt/belt_lcl.c']
BLOCK = ('src/crypto/belt/belt_block.c', {'remove': ['beltBlockEncr', 'beltBlockEncr2', 'beltBlockEncr3', 'beltBlockDecr', 'beltBlockDecr2', 'beltBlockDecr3']})
UF = ['stubs/belt_block_uf.c']

def tuples(nmax, frags, ok=lambda n, a, b: True, nmin=0):
    out = []
    for n in range(nmin, nmax + 1):
        for a in range(0, n + 1):
            bs = [n - a] if frags == 2 else range(0, n - a + 1)
            for b in bs:
                if ok(n, a, b): out.append((n, a, b))
    return out

def absorb(name, hfile, nmax, tier, srcs, funcs, stub_files=('stubs/belt_block_uf_e.c',), stubs=('belt_block_uf_e',), defs=(), core=BELT_CORE + [BLOCK], blk=16, lens=None, only_a=None):
    frags = 2 if tier == 'quick' else 3
    inst = []
    for (n, a, b) in tuples(nmax, frags):
        if lens is not None and n not in lens: continue
        if only_a is not None and a not in only_a: continue
        for g in ((0, 0), (1, 1)) if frags == 3 else ((0, 0), (1, 0)):
            inst.append(('h_%d_%d_%d_%d%d' % (n, a, b, g[0], g[1]), '%d, %d, %d, %d, %d, 32' % (n, a, b, g[0], g[1])))
    return Ob(name='c10_%s_n%d' % (name, nmax), harness='harness/C10/' + hfile, defs=['MAXN=%d' % nmax] + list(defs), instances=inst,
              srcs=core + srcs, stub_files=list(stub_files), unwind=max(nmax, 40) + 8, timeout=300, mem_gb=6, cbmc_extra=['--max-field-sensitivity-array-size', '512'], unwind_rules=[(r'^(belt|bash|brng)\w+Step\w*\.\d+$', nmax // blk + 2)], funcs=funcs, stubs=list(stubs),
              bound=('message lengths %s' % sorted(lens) if lens is not None else '') + ' every message length 0..%d x every split into %d consecutive fragments (empty ones included) x Get at the boundaries or not: %d concrete length tuples, each decided for ALL data/key/iv values; state relocated at every boundary' % (nmax, frags, len(inst)))

def stream(name, hfile, nmax, tier, srcs, funcs, ok=lambda n, a, b: True, note='', defs=(), blk=16, lens=None):
    frags = 2 if tier == 'quick' else 3
    inst = [('h_%d_%d_%d' % t, '%d, %d, %d, 32' % t) for t in tuples(nmax, frags, ok) if lens is None or t[0] in lens]
    if lens is not None: note += ' (lengths %s only in the quick tier)' % sorted(lens)
    return Ob(name='c10_%s_n%d' % (name, nmax), harness='harness/C10/' + hfile, defs=['MAXN=%d' % nmax] + list(defs), instances=inst,
              srcs=BELT_CORE + [BLOCK] + srcs, stub_files=UF, unwind=max(nmax, 40) + 8, timeout=300, mem_gb=6, cbmc_extra=['--max-field-sensitivity-array-size', '512'], unwind_rules=[(r'^(belt|bash|brng)\w+Step\w*\.\d+$', nmax // blk + 2)], funcs=funcs, stubs=['belt_block_uf'],
              bound='every data length <= %d x every admissible split into %d fragments%s: %d concrete length tuples, each decided for ALL data/key/iv values; state relocated at every boundary' % (nmax, frags, note, len(inst)))

def obligations(tier):
    q = tier == 'quick'
    obs = []
    B = 'src/crypto/belt/'
    n16 = 18 if q else 24
    n32 = 34 if q else 40
    QL = set([0, 1, 15, 16, 17, 18]) if q else None
    obs.append(absorb('beltMAC', 'belt_mac.c', n16, tier, [B + 'belt_mac.c'], ['beltMACStart', 'beltMACStepA', 'beltMACStepG'], lens=QL))
    # belt-hash / HMAC instances cost 8 s / 40 s each (3 uninterpreted cipher calls per compression):
    # quick keeps the lengths around the 32-octet block boundary, thorough the complete range
    obs.append(absorb('beltHash', 'belt_hash.c', n32, tier, [B + 'belt_hash.c', B + 'belt_compr.c'], ['beltHashStart', 'beltHashStepH', 'beltHashStepG', 'beltCompr', 'beltCompr2'], blk=32,
                      lens=set([1, 33]) if q else None))
    obs.append(absorb('beltHMAC', 'belt_hmac.c', n32, tier, [B + 'belt_hmac.c', B + 'belt_hash.c', B + 'belt_compr.c'], ['beltHMACStart', 'beltHMACStepA', 'beltHMACStepG'], blk=32,
                      lens=set([33]) if q else set(range(0, 36)), only_a=(0, 1, 16, 32, 33) if q else None))
    obs.append(stream('beltCFB_E', 'belt_cfb.c', n16, tier, [B + 'belt_cfb.c'], ['beltCFBStart', 'beltCFBStepE'], lens=QL))
    obs.append(stream('beltCFB_D', 'belt_cfb.c', n16, tier, [B + 'belt_cfb.c'], ['beltCFBStart', 'beltCFBStepD'], defs=['DECR'], lens=QL))
    obs.append(stream('beltCTR', 'belt_ctr.c', n16, tier, [B + 'belt_ctr.c'], ['beltCTRStart', 'beltCTRStepE'], lens=QL))
    cts = lambda n, a, b: a % 16 == 0 and b % 16 == 0 and n - a - b >= 16
    nb = 50 if q else 66
    note = ' (belt.h: whole blocks, a ragged CTS tail only in the last call, every call >= 16 octets)'
    obs.append(stream('beltECB_E', 'belt_ecb.c', nb, 'thorough', [B + 'belt_ecb.c'], ['beltECBStart', 'beltECBStepE'], cts, note))
    obs.append(stream('beltECB_D', 'belt_ecb.c', nb, 'thorough', [B + 'belt_ecb.c'], ['beltECBStart', 'beltECBStepD'], cts, note, defs=['DECR']))
    obs.append(stream('beltCBC_E', 'belt_cbc.c', nb, 'thorough', [B + 'belt_cbc.c'], ['beltCBCStart', 'beltCBCStepE'], cts, note))
    obs.append(stream('beltCBC_D', 'belt_cbc.c', nb, 'thorough', [B + 'belt_cbc.c'], ['beltCBCStart', 'beltCBCStepD'], cts, note, defs=['DECR']))
    blk = lambda n, a, b: a % 16 == 0 and b % 16 == 0 and n % 16 == 0 and n - a - b >= 16
    obs.append(stream('beltBDE_E', 'belt_bde.c', 64, 'thorough', [B + 'belt_bde.c'], ['beltBDEStart', 'beltBDEStepE'], blk, ' (whole blocks)'))
    obs.append(stream('beltBDE_D', 'belt_bde.c', 64, 'thorough', [B + 'belt_bde.c'], ['beltBDEStart', 'beltBDEStepD'], blk, ' (whole blocks)', defs=['DECR']))
    # ---- brng generators, DWP/CHE with Get, bash hash and automaton
    BR = CORE + ['src/crypto/belt/belt_lcl.c', BLOCK, B + 'belt_hash.c', B + 'belt_compr.c', B + 'belt_hmac.c', 'src/crypto/brng.c']
    X = ['--max-field-sensitivity-array-size', '2048']
    lens = (1, 32) if q else tuple(range(0, 41))
    inst = [('h_%d_%d_%d' % (n, a, n - a if q else b_), '%d, %d, %d, 32' % (n, a, 0 if q else b_)) for n in lens for a in (sorted(set(x for x in (0, 1, 5, 31, 32, n) if x <= n)) if q else range(0, n + 1)) for b_ in ([0] if q else range(0, n - a + 1, 7))]
    inst = [(nm + '_%d' % i, args) for i, (nm, args) in enumerate(inst)]
    obs.append(Ob(name='c10_brngCTR', harness='harness/C10/brng_ctr.c', instances=inst, replay='asan', srcs=BR, stub_files=['stubs/belt_block_uf_e.c'], stubs=['belt_block_uf_e'],
                  unwind=60, unwind_rules=[(r'^(belt|brng)\w+Step\w*\.\d+$', 4), (r'^brngBlockInc\.0$', 5), (r'^vp_relocate\.\d$', 300)], timeout=600, mem_gb=16, cbmc_extra=X,
                  funcs=['brngCTRStart', 'brngCTRStepR'], bound='request lengths %s x every split point (quick: 2 fragments) = %d length tuples, key/iv symbolic, output buffers zero-filled, state relocated at every boundary' % (list(lens), len(inst))))
    inst2 = [('h_%d_%d_%d' % (n, a, iv), '%d, %d, 0, %d' % (n, a, iv)) for n in ((1,) if q else (0, 1, 31, 32, 33, 40)) for a in ((0, 1) if q else range(0, n + 1, 1 if n < 8 else 8)) for iv in ((16, 72) if q else (0, 16, 64, 65, 72))]
    obs.append(Ob(name='c10_brngCTR_reloc', harness='harness/C10/brng_ctr.c', defs=['NOEQ'], replay='asan',
                  instances=[('h_%d_%d' % t, '%d, %d, 0, 32' % t) for t in ((1, 0), (5, 2))],
                  srcs=BR, stub_files=['harness/C07/belt_block_havoc.c'], stubs=['belt_block_havoc (arbitrary function)'],
                  unwind=90, unwind_rules=[(r'^(belt|brng)\w+Step\w*\.\d+$', 5), (r'^brngBlockInc\.0$', 5), (r'^vp_relocate\.\d$', 300)], timeout=600, mem_gb=8, cbmc_extra=X,
                  funcs=['brngCTRStart', 'brngCTRStepR'], bound='2 (request length, split) tuples; state relocated (old object overwritten and freed) at every boundary; memory checks only'))
    if q:
        # quick: relocation safety only (cipher = arbitrary in-place function, no equality): a state that still refers to
        # its old location dereferences a freed object; the functional chunking equality costs 500 s per instance (thorough)
        obs.append(Ob(name='c10_brngHMAC_reloc', harness='harness/C10/brng_hmac.c', defs=['NOEQ'], replay='asan',
                      instances=[('h_%d_%d_%d' % t, '%d, %d, 0, %d' % t) for t in ((1, 0, 16), (5, 2, 72))],
                      srcs=BR, stub_files=['harness/C07/belt_block_havoc.c'], stubs=['belt_block_havoc (arbitrary function)'],
                      unwind=90, unwind_rules=[(r'^(belt|brng)\w+Step\w*\.\d+$', 5), (r'^vp_relocate\.\d$', 300)], timeout=600, mem_gb=8, cbmc_extra=X,
                      funcs=['brngHMACStart', 'brngHMACStepR'], bound='2 (request length, split, iv length) tuples (iv_len 16 <= 64 and 72 > 64); state relocated (old object overwritten and freed) at every boundary; memory checks only'))
    else:
        obs.append(Ob(name='c10_brngHMAC', harness='harness/C10/brng_hmac.c', instances=inst2, replay='asan', srcs=BR, stub_files=['stubs/belt_block_uf_e.c'], stubs=['belt_block_uf_e'],
                      unwind=90, unwind_rules=[(r'^(belt|brng)\w+Step\w*\.\d+$', 5), (r'^vp_relocate\.\d$', 300)], timeout=900, mem_gb=16, cbmc_extra=X,
                      funcs=['brngHMACStart', 'brngHMACStepR'], bound='%d (request length, split point, iv length) tuples incl. iv_len 72 > 64 (state keeps a pointer to the caller iv), state relocated at every boundary' % len(inst2)))
    AE = BELT_CORE + [BLOCK, B + 'belt_dwp.c', B + 'belt_che.c', B + 'belt_ctr.c']
    shapes = [(nh, a, nd, b, g1, g2) for nh in ((0, 17, 20) if q else (0, 1, 5, 16, 17, 20, 32, 33)) for a in sorted(set([0, nh // 2] if q else [0, nh // 2, nh])) for nd in ((0, 7, 16) if q else (0, 1, 7, 16, 17, 21, 33)) for b in sorted(set([nd // 2] if q else [0, nd // 2, nd]))
              for (g1, g2) in (((1, 1),) if q else ((0, 0), (1, 1)))]
    for che in (() if q else (0, 1)):   # quick: out of memory in propositional reduction even for the smallest instance (not understood); thorough keeps them, expected UNDECIDED
        obs.append(Ob(name='c10_belt%s_get' % ('CHE' if che else 'DWP'), harness='harness/C10/belt_dwp.c', defs=['USE_CHE'] if che else [],
                      instances=[('h_%d_%d_%d_%d_%d%d' % s_, '%d, %d, %d, %d, %d, %d' % s_) for s_ in shapes], srcs=AE, stub_files=['stubs/belt_block_uf_e.c', 'stubs/belt_polymul_uf.c'],
                      stubs=['belt_block_uf_e', 'belt_polymul_uf'], unwind=50, unwind_rules=[(r'^belt\w+Step\w*\.\d+$', 4)], timeout=600, mem_gb=10, cbmc_extra=X,
                      funcs=['Start', 'StepI', 'StepE', 'StepA', 'StepG'], bound='%d (open length, split, critical length, split, Get at boundaries) tuples; state relocated at both boundaries' % len(shapes)))
    BH = CORE + ['src/crypto/bash/bash_hash.c', 'src/crypto/bash/bash_prg.c']
    rate = 128
    ns = (rate, 2 * rate) if q else (0, 1, 2, rate - 1, rate, rate + 1, 130, 2 * rate - 1, 2 * rate, 2 * rate + 1)
    pi = []
    for n in ns:
        for a in sorted(set(x for x in ((0, 100, rate) if q else (0, 1, 100, rate - 1, rate, n - 1, n, n // 2)) if 0 <= x <= n)):
            for (m, b_) in ((33, 5),) if q else ((0, 0), (1, 1), (33, 5), (33, 32), (40, 0), (40, 40)):
                pi.append(('h_%d_%d_%d_%d' % (n, a, m, b_), '%d, %d, %d, %d, 32' % (n, a, m, b_)))
    obs.append(Ob(name='c10_bashPrg', harness='harness/C10/bash_prg.c', defs=['LEVEL=256', 'CAP=2', 'MAXN=258'], instances=pi, srcs=BH, stub_files=['stubs/bashf_uf.c'], stubs=['bashf_uf'],
                  unwind=270, unwind_rules=[(r'^bashPrg\w+\.\d+$', 5)], timeout=600, mem_gb=10, cbmc_extra=X,
                  funcs=['bashPrgStart', 'bashPrgAbsorbStep', 'bashPrgSqueezeStep', 'bashPrgAbsorb', 'bashPrgSqueeze'],
                  bound='l=256, d=2 (rate 128), keyed: %d (absorb length, split, squeeze length, split) tuples around the rate boundary; not relocated (bash.h does not declare the state copyable)' % len(pi)))
    bh = [('h_%d_%d_%d_%d%d' % (n, a, n - a, g, 0), '%d, %d, %d, %d, 0, 32' % (n, a, n - a, g)) for n in ((1, 128, 129) if q else (0, 1, 64, 127, 128, 129, 130)) for a in sorted(set(x for x in ((1, 128) if q else (0, 1, 127, 128, n // 2, n)) if x <= n)) for g in ((1,) if q else (0, 1))]
    obs.append(Ob(name='c10_bashHash256', harness='harness/C10/bash_hash.c', defs=['LEVEL=256', 'MAXN=130'], instances=bh, srcs=BH, stub_files=['stubs/bashf_uf.c'], stubs=['bashf_uf'],
                  unwind=140, unwind_rules=[(r'^bashHash\w+\.\d+$', 4)], timeout=600, mem_gb=10, cbmc_extra=X,
                  funcs=['bashHashStart', 'bashHashStepH', 'bashHashStepG'], bound='bash256 (rate 128): %d (length, split, Get) tuples around the rate boundary' % len(bh)))
    return obs
