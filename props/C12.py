from vp_check import Ob

META = dict(
    not_decided=['Rabin-Miller on multi-word numbers and priIsPrimeW (64-bit modular exponentiation with symbolic modulus)', 'parameter generation from seeds',
                 'parameter/key validators of bign, bign96, g12s, stb99, dstu, pfok, bels (need EC / multi-word arithmetic on symbolic data)', 'ppIsIrred above the stated degree'],
    assumptions=[],
)

def obligations(tier):
    obs = []
    tm = ['src/core/tm.c', 'src/core/mem.c']
    obs.append(Ob(name='c12_tmDateIsValid', harness='harness/C12/tm_date.c', entry='h_date', srcs=tm,
                  bound='all (y,m,d) in size_t^3 (full 64-bit width)', funcs=['tmDateIsValid'], timeout=120, backend=['z3','cvc5']))
    obs.append(Ob(name='c12_tmDateIsValid2', harness='harness/C12/tm_date.c', entry='h_date2', srcs=tm,
                  bound='all 2^48 six-octet strings', funcs=['tmDateIsValid2', 'tmDateIsValid'], timeout=120, backend=['z3','cadical']))
    # ppIsIrred for every polynomial of small degree, against a table from exact trial division
    def pmod(a, b):
        db = b.bit_length() - 1
        while a and a.bit_length() - 1 >= db: a ^= b << (a.bit_length() - 1 - db)
        return a
    def irreducible(a):
        d = a.bit_length() - 1
        if d < 1: return False
        return all(pmod(a, b) != 0 for b in range(2, 1 << (d // 2 + 1)))
    for deg in (() if tier == 'quick' else (6, 8)):   # quick: no verdict in 900 s even at degree < 8
        bits = bytearray((1 << deg) // 8)
        for a in range(1 << deg):
            if irreducible(a): bits[a >> 3] |= 1 << (a & 7)
        table = '{' + ','.join(str(b) for b in bits) + '}'
        obs.append(Ob(name='c12_ppIsIrred_deg%d' % deg, harness='harness/C12/irred.c', entry='h_irred', word=16, defs=['DEG=%d' % deg, 'IRR_TABLE=' + table],
                      srcs=['src/math/pp/pp_etc.c', 'src/math/pp/pp_gcd.c', 'src/math/pp/pp_mod.c', 'src/math/pp/pp_mul.c', 'src/math/pp/pp_red.c', 'src/math/ww.c', 'src/core/mem.c', 'src/core/util.c', 'src/core/word.c', 'src/core/u16.c', 'src/core/u32.c'],
                      unwind=40, timeout=3000, mem_gb=16, checks=['--bounds-check', '--pointer-check'], backend=['cadical', 'kissat'],
                      funcs=['ppIsIrred', 'ppGCD', 'ppSqrMod'], bound='every binary polynomial of degree < %d (16-bit words, n = 1) against exact trial division' % deg))
    return obs
