from vp_check import Ob

META = dict(
    not_decided=['Rabin-Miller on multi-word numbers', 'parameter generation from seeds'],
    assumptions=[],
)

def obligations(tier):
    obs = []
    tm = ['src/core/tm.c', 'src/core/mem.c']
    obs.append(Ob(name='c12_tmDateIsValid', harness='harness/C12/tm_date.c', entry='h_date', srcs=tm,
                  bound='all (y,m,d) in size_t^3 (full 64-bit width)', funcs=['tmDateIsValid'], timeout=120, backend=['z3','cvc5']))
    obs.append(Ob(name='c12_tmDateIsValid2', harness='harness/C12/tm_date.c', entry='h_date2', srcs=tm,
                  bound='all 2^48 six-octet strings', funcs=['tmDateIsValid2', 'tmDateIsValid'], timeout=120, backend=['z3','cadical']))
    return obs
