from vp_check import Ob

META = dict(
    not_decided=['inputs longer than the stated N', 'certificate/container decoders beyond framing (see evidence bounds)'],
    assumptions=['DER reference grammar model_tl() in harness/C08/der.c written from der.h',
                 'REL profile (NDEBUG): the shipped configuration; ASSERT()s are covered under C07'],
)

DER_SRCS = ['src/core/der.c', 'src/core/mem.c', 'src/core/oid.c', 'src/core/str.c', 'src/core/util.c']

def obligations(tier):
    obs = []
    N = 12 if tier == 'quick' else 16
    for e, fn in [('h_tldec', ['derTLDec']), ('h_dec', ['derDec', 'derEnc']), ('h_isvalid', ['derIsValid', 'derIsValid2', 'derStartsWith']),
                  ('h_sizedec', ['derTSIZEDec', 'derTSIZEEnc']), ('h_uintdec', ['derTUINTDec', 'derTUINTDec2', 'derTUINTEnc']),
                  ('h_bitdec', ['derTBITDec', 'derTBITEnc']), ('h_octdec', ['derTOCTDec', 'derTOCTDec2']),
                  ('h_pstrdec', ['derTPSTRDec', 'derTPSTREnc']), ('h_seqdec', ['derTSEQDecStart', 'derTSEQDecStop'])]:
        obs.append(Ob(name='c08_der_%s_n%d' % (e[2:], N), harness='harness/C08/der.c', entry=e, defs=['N=%d' % N], srcs=DER_SRCS,
                      unwind=N + 18, timeout=600, replay='asan', funcs=fn,
                      bound='every octet string of length 0..%d (content and length symbolic), tag argument all 2^32 words' % N))
    for e, fn, b in [('h_tlenc', ['derTLEnc', 'derTLDec'], 'all 2^32 tag words x all size_t lengths'),
                     ('h_sizeenc', ['derTSIZEEnc', 'derTSIZEDec', 'derTSIZEDec2'], 'all well-formed tags x all size_t values'),
                     ('h_uintenc', ['derTUINTEnc', 'derTUINTDec'], 'all octet strings of length 1..8'),
                     ('h_bitenc', ['derTBITEnc', 'derTBITDec', 'derTBITDec2'], 'all bit strings of length 0..40')]:
        obs.append(Ob(name='c08_der_%s' % e[2:], harness='harness/C08/der.c', entry=e, defs=['N=12'], srcs=DER_SRCS,
                      unwind=45, timeout=600, replay='asan', funcs=fn, bound=b))
    MISC = ['src/core/apdu.c', 'src/core/b64.c', 'src/core/hex.c', 'src/core/oid.c', 'src/core/dec.c', 'src/core/der.c', 'src/core/str.c', 'src/core/mem.c', 'src/core/util.c',
            'src/core/u32.c', 'src/core/u64.c', 'src/core/word.c']
    NM = 12 if tier == 'quick' else 14
    for e, fn, b, n in [('h_apdu_cmd_dec', ['apduCmdDec', 'apduCmdEnc', 'apduCmdIsValid'], 'every octet string of length 0..%d', NM),
                        ('h_apdu_cmd_enc', ['apduCmdEnc', 'apduCmdDec'], 'every command with 0..4 data octets and every Le in 0..65536 (all Lc/Le forms)', 12),
                        ('h_apdu_resp', ['apduRespDec', 'apduRespEnc'], 'every octet string of length 0..%d', NM),
                        ('h_b64_dec', ['b64IsValid', 'b64To', 'b64From'], 'every character string of length 0..%d', 12),
                        ('h_b64_enc', ['b64From', 'b64To', 'b64IsValid'], 'every octet string of length 0..9', 12),
                        ('h_hex', ['hexIsValid', 'hexTo', 'hexFrom', 'hexEq'], 'every character string of length 0..%d', 12),
                        ('h_oid_dec', ['oidFromDER', 'oidToDER', 'oidIsValid'], 'every octet string of length 0..%d (thorough tier only: no verdict in 900 s at length 6)', 6),
                        ('h_dec', ['decIsValid', 'decFromU32', 'decToU32'], 'every character string of length 0..%d; every u32', 12)]:
        if e == 'h_oid_dec' and tier == 'quick': continue
        obs.append(Ob(name='c08_%s' % e[2:], harness='harness/C08/misc.c', entry=e, defs=['N=%d' % n], srcs=MISC, unwind=4 * n + 8, timeout=900, replay='asan',
                      backend=['cadical', 'kissat'], funcs=fn, bound=(b % n) if '%d' in b else b))
    BP = ['src/crypto/bign/bign_params.c', 'src/core/der.c', 'src/core/oid.c', 'src/core/str.c', 'src/core/mem.c', 'src/core/util.c', 'src/core/hex.c', 'src/core/u32.c', 'src/core/u64.c', 'src/core/word.c']
    if tier == 'thorough': obs.append(Ob(name='c08_bignParamsDec_mutants', harness='harness/C08/bignparams.c', entry='h_params_dec', defs=['NB=420'], srcs=BP,
                  unwind=70, timeout=3000, mem_gb=24, replay='asan', checks=['--bounds-check', '--pointer-check'], funcs=['bignParamsDec', 'bignParamsDec_internal', 'derUINTDec', 'derOCTDec2', 'derBITDec2'],
                  bound='420-octet inputs: valid encoding of bign-curve256v1 up to the tag of the modulus, then a two-octet length field with EVERY value and every continuation; *params is a heap object of exactly sizeof(bign_params)'))
    return obs
