from vp_check import Ob

META = dict(
    not_decided=['inputs longer than the stated N', 'certificate/container decoders beyond framing (see evidence bounds)'],
    assumptions=['DER reference grammar model_tl() in harness/C08/der.c written from der.h',
                 'REL profile (NDEBUG): the shipped configuration; ASSERT()s are covered under C07'],
)

DER_SRCS = ['src/core/der.c', 'src/core/mem.c', 'src/core/oid.c', 'src/core/str.c', 'src/core/util.c']

def obligations(tier):
    obs = []
    N = 12 if tier == 'quick' else 16
    for e, fn in [('h_tldec', ['derTLDec']), ('h_dec', ['derDec', 'derEnc']), ('h_isvalid', ['derIsValid', 'derIsValid2', 'derStartsWith']),
                  ('h_sizedec', ['derTSIZEDec', 'derTSIZEEnc']), ('h_uintdec', ['derTUINTDec', 'derTUINTDec2', 'derTUINTEnc']),
                  ('h_bitdec', ['derTBITDec', 'derTBITEnc']), ('h_octdec', ['derTOCTDec', 'derTOCTDec2']),
                  ('h_pstrdec', ['derTPSTRDec', 'derTPSTREnc']), ('h_seqdec', ['derTSEQDecStart', 'derTSEQDecStop'])]:
        obs.append(Ob(name='c08_der_%s_n%d' % (e[2:], N), harness='harness/C08/der.c', entry=e, defs=['N=%d' % N], srcs=DER_SRCS,
                      unwind=N + 18, timeout=600, replay='asan', funcs=fn,
                      bound='every octet string of length 0..%d (content and length symbolic), tag argument all 2^32 words' % N))
    for e, fn, b in [('h_tlenc', ['derTLEnc', 'derTLDec'], 'all 2^32 tag words x all size_t lengths'),
                     ('h_sizeenc', ['derTSIZEEnc', 'derTSIZEDec', 'derTSIZEDec2'], 'all well-formed tags x all size_t values'),
                     ('h_uintenc', ['derTUINTEnc', 'derTUINTDec'], 'all octet strings of length 1..8'),
                     ('h_bitenc', ['derTBITEnc', 'derTBITDec', 'derTBITDec2'], 'all bit strings of length 0..40')]:
        obs.append(Ob(name='c08_der_%s' % e[2:], harness='harness/C08/der.c', entry=e, defs=['N=12'], srcs=DER_SRCS,
                      unwind=45, timeout=600, replay='asan', funcs=fn, bound=b))
    return obs
