/* memwipe_nop.c - memWipe (anti-optimisation wipe: pointer-to-integer arithmetic, memchr, a byte loop over the whole
 * state blob) replaced by a no-op for FUNCTIONAL obligations whose results do not depend on wiped memory (C01 modes).
 * Zeroisation itself is the subject of another property. CBMC only; natively the real memWipe is linked. */
#include <stddef.h>
void memWipe(void* buf, size_t count) { (void)buf; (void)count; }
