/* zzdiv_u128.c - contract model of zzDiv for the operand sizes of beltFMTCalcB in the 64-bit configuration
 * (n = 2 words, m in {1, 2}): quotient and remainder by ONE 128-bit integer division instead of Knuth's
 * algorithm D with its normalisation shifts and 128/64-bit trial divisions. zzDiv itself is the subject of C05.
 * Used only in CBMC; natively (replay) the real zzDiv is linked. */
#include <bee2/math/zz.h>
typedef unsigned __int128 VPU;
void zzDiv(word q[], word r[], const word a[], size_t n, const word b[], size_t m, void* stack)
{
	VPU A, B, Q, R;
	__CPROVER_assert(B_PER_W == 64 && n == 2 && (m == 1 || m == 2), "zzDiv stub: n == 2, m in {1,2}, 64-bit words");
	A = (VPU)a[0] | (VPU)a[1] << 64;
	B = (VPU)b[0] | (m == 2 ? (VPU)b[1] << 64 : (VPU)0);
	__CPROVER_assert(B != 0 && b[m - 1] != 0, "zzDiv precondition: top divisor word non-zero");
	Q = A / B; R = A % B;
	q[0] = (word)Q;
	if (m == 1) q[1] = (word)(Q >> 64);
	r[0] = (word)R;
	if (m == 2) r[1] = (word)(R >> 64);
}
