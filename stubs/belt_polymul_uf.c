/* belt_polymul_uf.c - beltPolyMul (GF(2^128) product of DWP/CHE) as an UNINTERPRETED function of its two operands
 * (CBMC only, 64-bit words). Its equality with the field product is the subject of c01_lcl_polymul*. */
#include <bee2/defs.h>
typedef unsigned __int128 VPUU;
VPUU __CPROVER_uninterpreted_beltPolyMul(VPUU, VPUU);
void beltPolyMul(word c[], const word a[], const word b[], void* stack)
{
	VPUU x = (VPUU)a[0] | (VPUU)a[1] << 64, y = (VPUU)b[0] | (VPUU)b[1] << 64;
	VPUU r = __CPROVER_uninterpreted_beltPolyMul(x, y);
	c[0] = (word)r; c[1] = (word)(r >> 64);
}
