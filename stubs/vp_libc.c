/* libc comparison/search functions as what they are documented to be: early-exit loops
 * (not constant time). Linked BEFORE goto-instrument --branch so that their branches are traced. */
#include <stddef.h>
int memcmp(const void* a, const void* b, size_t n)
{
	const unsigned char* x = a; const unsigned char* y = b; size_t i;
	for (i = 0; i < n; ++i) if (x[i] != y[i]) return x[i] < y[i] ? -1 : 1;
	return 0;
}
int bcmp(const void* a, const void* b, size_t n) { return memcmp(a, b, n); }
void* memchr(const void* s, int c, size_t n)
{
	const unsigned char* x = s; size_t i;
	for (i = 0; i < n; ++i) if (x[i] == (unsigned char)c) return (void*)(x + i);
	return 0;
}
int strcmp(const char* a, const char* b)
{
	size_t i;
	for (i = 0; a[i] && a[i] == b[i]; ++i);
	return (unsigned char)a[i] < (unsigned char)b[i] ? -1 : (unsigned char)a[i] > (unsigned char)b[i];
}
int strncmp(const char* a, const char* b, size_t n)
{
	size_t i;
	for (i = 0; i < n; ++i) { if (a[i] != b[i]) return (unsigned char)a[i] < (unsigned char)b[i] ? -1 : 1; if (!a[i]) break; }
	return 0;
}
