/* belt_block_uf_e.c - encryption-only variant of belt_block_uf.c for bundles that never decrypt
 * (MAC, hash, HMAC, CTR, CFB, brng, botp, KRP): ONE uninterpreted function E: (key, block) -> 128 bits,
 * no inverse (4x fewer Ackermann constraints). beltBlockDecr* are left without body on purpose:
 * reaching them fails the obligation ("no body"). */
#include <bee2/crypto/belt.h>
typedef unsigned long long U;
typedef unsigned __int128 UU;
UU __CPROVER_uninterpreted_beltE(U, U, U, U, U, U);
unsigned vp_uf_block_calls = 0;
static void vp_uf_E(u32* a, u32* b, u32* c, u32* d, const u32 key[8])
{
	U k0 = key[0] | ((U)key[1] << 32), k1 = key[2] | ((U)key[3] << 32);
	U k2 = key[4] | ((U)key[5] << 32), k3 = key[6] | ((U)key[7] << 32);
	U x0 = *a | ((U)*b << 32), x1 = *c | ((U)*d << 32);
	UU y = __CPROVER_uninterpreted_beltE(k0, k1, k2, k3, x0, x1);
	U y0 = (U)y, y1 = (U)(y >> 64);
	*a = (u32)y0; *b = (u32)(y0 >> 32); *c = (u32)y1; *d = (u32)(y1 >> 32);
	++vp_uf_block_calls;
}
static u32 vp_ld(const octet* p) { return p[0] | ((u32)p[1] << 8) | ((u32)p[2] << 16) | ((u32)p[3] << 24); }
static void vp_st(octet* p, u32 v) { p[0] = (octet)v; p[1] = (octet)(v >> 8); p[2] = (octet)(v >> 16); p[3] = (octet)(v >> 24); }
void beltBlockEncr(octet block[16], const u32 key[8])
{
	u32 a = vp_ld(block), b = vp_ld(block + 4), c = vp_ld(block + 8), d = vp_ld(block + 12);
	vp_uf_E(&a, &b, &c, &d, key);
	vp_st(block, a); vp_st(block + 4, b); vp_st(block + 8, c); vp_st(block + 12, d);
}
void beltBlockEncr2(u32 block[4], const u32 key[8]) { vp_uf_E(block, block + 1, block + 2, block + 3, key); }
void beltBlockEncr3(u32* a, u32* b, u32* c, u32* d, const u32 key[8]) { vp_uf_E(a, b, c, d, key); }
