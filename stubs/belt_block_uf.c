/* belt_block_uf.c - the belt block cipher as an UNINTERPRETED bijection (CBMC only).
 * Replaces the bodies of beltBlockEncr/Encr2/Encr3/Decr/Decr2/Decr3 of belt_block.c
 * (removed with goto-instrument --remove-function-body); beltKeyExpand/beltH stay real.
 * Contract kept: E and D are functions of (key[8], block[4]); D(k,E(k,x)) == x and
 * E(k,D(k,y)) == y (by instantiation at every call); the octet and u32 entry points agree
 * (little-endian load/store). Nothing else is known about E: an equality proved with this
 * stub holds for the real cipher. */
#include <bee2/crypto/belt.h>
typedef unsigned long long U;
U __CPROVER_uninterpreted_beltE0(U, U, U, U, U, U);
U __CPROVER_uninterpreted_beltE1(U, U, U, U, U, U);
U __CPROVER_uninterpreted_beltD0(U, U, U, U, U, U);
U __CPROVER_uninterpreted_beltD1(U, U, U, U, U, U);

unsigned vp_uf_block_calls = 0;

#ifdef VP_UF_NO_INVERSE
#undef __CPROVER_assume
#define __CPROVER_assume(x) ((void)0)
#endif
static void vp_uf_E(u32* a, u32* b, u32* c, u32* d, const u32 key[8])
{
	U k0 = key[0] | ((U)key[1] << 32), k1 = key[2] | ((U)key[3] << 32);
	U k2 = key[4] | ((U)key[5] << 32), k3 = key[6] | ((U)key[7] << 32);
	U x0 = *a | ((U)*b << 32), x1 = *c | ((U)*d << 32);
	U y0 = __CPROVER_uninterpreted_beltE0(k0, k1, k2, k3, x0, x1);
	U y1 = __CPROVER_uninterpreted_beltE1(k0, k1, k2, k3, x0, x1);
	__CPROVER_assume(__CPROVER_uninterpreted_beltD0(k0, k1, k2, k3, y0, y1) == x0);
	__CPROVER_assume(__CPROVER_uninterpreted_beltD1(k0, k1, k2, k3, y0, y1) == x1);
	*a = (u32)y0; *b = (u32)(y0 >> 32); *c = (u32)y1; *d = (u32)(y1 >> 32);
	++vp_uf_block_calls;
}

static void vp_uf_D(u32* a, u32* b, u32* c, u32* d, const u32 key[8])
{
	U k0 = key[0] | ((U)key[1] << 32), k1 = key[2] | ((U)key[3] << 32);
	U k2 = key[4] | ((U)key[5] << 32), k3 = key[6] | ((U)key[7] << 32);
	U y0 = *a | ((U)*b << 32), y1 = *c | ((U)*d << 32);
	U x0 = __CPROVER_uninterpreted_beltD0(k0, k1, k2, k3, y0, y1);
	U x1 = __CPROVER_uninterpreted_beltD1(k0, k1, k2, k3, y0, y1);
	__CPROVER_assume(__CPROVER_uninterpreted_beltE0(k0, k1, k2, k3, x0, x1) == y0);
	__CPROVER_assume(__CPROVER_uninterpreted_beltE1(k0, k1, k2, k3, x0, x1) == y1);
	*a = (u32)x0; *b = (u32)(x0 >> 32); *c = (u32)x1; *d = (u32)(x1 >> 32);
	++vp_uf_block_calls;
}

static u32 vp_ld(const octet* p) { return p[0] | ((u32)p[1] << 8) | ((u32)p[2] << 16) | ((u32)p[3] << 24); }
static void vp_st(octet* p, u32 v) { p[0] = (octet)v; p[1] = (octet)(v >> 8); p[2] = (octet)(v >> 16); p[3] = (octet)(v >> 24); }

void beltBlockEncr(octet block[16], const u32 key[8])
{
	u32 a = vp_ld(block), b = vp_ld(block + 4), c = vp_ld(block + 8), d = vp_ld(block + 12);
	vp_uf_E(&a, &b, &c, &d, key);
	vp_st(block, a); vp_st(block + 4, b); vp_st(block + 8, c); vp_st(block + 12, d);
}
void beltBlockEncr2(u32 block[4], const u32 key[8]) { vp_uf_E(block, block + 1, block + 2, block + 3, key); }
void beltBlockEncr3(u32* a, u32* b, u32* c, u32* d, const u32 key[8]) { vp_uf_E(a, b, c, d, key); }
void beltBlockDecr(octet block[16], const u32 key[8])
{
	u32 a = vp_ld(block), b = vp_ld(block + 4), c = vp_ld(block + 8), d = vp_ld(block + 12);
	vp_uf_D(&a, &b, &c, &d, key);
	vp_st(block, a); vp_st(block + 4, b); vp_st(block + 8, c); vp_st(block + 12, d);
}
void beltBlockDecr2(u32 block[4], const u32 key[8]) { vp_uf_D(block, block + 1, block + 2, block + 3, key); }
void beltBlockDecr3(u32* a, u32* b, u32* c, u32* d, const u32 key[8]) { vp_uf_D(a, b, c, d, key); }
