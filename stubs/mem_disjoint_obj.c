/* mem_disjoint_obj.c - object-aware model of memIsDisjoint2 (CBMC only). The real function compares pointers into
 * DIFFERENT objects with <= / >=, which CBMC leaves unspecified, so input checks such as
 * `header && !memIsDisjoint2(src, count, header, 16)` in beltKWPWrap would fail spuriously.
 * Model: buffers in different objects are disjoint; inside one object the offsets are compared as in the real code. */
#include <bee2/defs.h>
bool_t memIsDisjoint2(const void* buf1, size_t count1, const void* buf2, size_t count2)
{
	size_t o1, o2;
	if (count1 == 0 || count2 == 0) return TRUE;
	if (__CPROVER_POINTER_OBJECT(buf1) != __CPROVER_POINTER_OBJECT(buf2)) return TRUE;
	o1 = (size_t)__CPROVER_POINTER_OFFSET(buf1); o2 = (size_t)__CPROVER_POINTER_OFFSET(buf2);
	return o1 + count1 <= o2 || o1 >= o2 + count2;
}
