/* bashf_uf.c - bash-f as an uninterpreted function of the 192-octet state (CBMC only).
 * 24 output words, each an uninterpreted function of the 24 input words. */
#include <bee2/crypto/bash.h>
#include <string.h>
typedef unsigned long long U;
#define A24 U,U,U,U,U,U,U,U,U,U,U,U,U,U,U,U,U,U,U,U,U,U,U,U
U __CPROVER_uninterpreted_bashF_w(unsigned, A24);
unsigned vp_uf_bashf_calls = 0;
void bashF(octet block[192], void* stack)
{
	U s[24], y[24]; unsigned i;
	memcpy(s, block, 192);      /* little-endian host: the octet string is the memory image of the words */
	for (i = 0; i < 24; ++i)
		y[i] = __CPROVER_uninterpreted_bashF_w(i, s[0], s[1], s[2], s[3], s[4], s[5], s[6], s[7], s[8], s[9], s[10], s[11],
			s[12], s[13], s[14], s[15], s[16], s[17], s[18], s[19], s[20], s[21], s[22], s[23]);
	memcpy(block, y, 192);
	++vp_uf_bashf_calls;
}
size_t bashF_deep() { return 0; }
